// Value types used in generated parameter lists, their key<->value mapping, and the instrumented Tracked types.
#pragma once
#include "common.hpp"
#include "ledger.hpp"

#include <cstddef>
#include <cstdint>
#include <memory>
#include <string>
#include <type_traits>
#include <unordered_map>

namespace vf
{
constexpr int64_t WILD = -1;  // model wildcard: value unspecified (moved-from)

// ---------------------------------------------------------------------------------------------------------------
// Tracked registry
// ---------------------------------------------------------------------------------------------------------------
struct Registry
{
    std::unordered_map<const void*, int> live;  // address -> type tag (1 Tracked, 2 TrackedMO)
    uint64_t constructs{}, destructs{}, copy_ctor{}, move_ctor{}, copy_assign{}, move_assign{};
    std::vector<SoftError> errors;
    bool enabled{true};

    void error(const char* code, const std::string& m)
    {
        if (errors.size() < 16) errors.push_back({code, m});
    }
    void reset()
    {
        live.clear();
        constructs = destructs = copy_ctor = move_ctor = copy_assign = move_assign = 0;
        errors.clear();
    }
    static std::string addr(const void* p)
    {
        char buf[32];
        std::snprintf(buf, sizeof buf, "%p", p);
        return buf;
    }
    void on_construct(const void* p, int tag)
    {
        ++constructs;
        auto [it, fresh] = live.emplace(p, tag);
        if (!fresh) error("construct_on_live_object", "an object was constructed at " + addr(p) + " on top of a live object");
    }
    void on_destroy(const void* p, const void* self)
    {
        ++destructs;
        auto it = live.find(p);
        if (it == live.end())
        {
            error("destroy_of_dead_object", "destructor ran at " + addr(p) + " where no live object is registered (double destruction or destruction of raw bytes)");
            return;
        }
        if (self != p) error("object_bytes_clobbered", "object at " + addr(p) + " has a damaged self pointer at destruction (bytes were overwritten or relocated without a constructor)");
        live.erase(it);
    }
    bool check_use(const void* p, const void* self, const char* what)
    {
        auto it = live.find(p);
        if (it == live.end())
        {
            error("use_of_dead_object", std::string(what) + " of an object at " + addr(p) + " that is not alive");
            return false;
        }
        if (self != p)
        {
            error("object_bytes_clobbered", std::string(what) + ": object at " + addr(p) + " has a damaged self pointer");
            return false;
        }
        return true;
    }
};

inline Registry& registry()
{
    static Registry r;
    return r;
}

inline void registry_release_hook(const unsigned char* lo, const unsigned char* hi)
{
    auto& r = registry();
    for (auto it = r.live.begin(); it != r.live.end();)
    {
        auto* p = static_cast<const unsigned char*>(it->first);
        if (p >= lo && p < hi)
        {
            r.error("block_freed_with_live_objects", "a block was returned to the allocator while the object at " + Registry::addr(p) + " in it was still alive");
            it = r.live.erase(it);
        }
        else
            ++it;
    }
}

template <int Tag, bool Copyable>
struct TrackedT
{
    int64_t key;
    const TrackedT* self;

    explicit TrackedT(int64_t k) : key(k), self(this) { registry().on_construct(this, Tag); }
    TrackedT(const TrackedT& o) : key(0), self(this)
    {
        static_assert(Copyable || sizeof(o) == 0, "copy of move-only tracked type");
        registry().check_use(&o, o.self, "copy-construction from");
        key = o.key;
        ++registry().copy_ctor;
        registry().on_construct(this, Tag);
    }
    TrackedT(TrackedT&& o) noexcept : key(0), self(this)
    {
        registry().check_use(&o, o.self, "move-construction from");
        key = o.key;
        o.key = WILD;
        ++registry().move_ctor;
        registry().on_construct(this, Tag);
    }
    TrackedT& operator=(const TrackedT& o)
    {
        registry().check_use(this, self, "copy-assignment to");
        registry().check_use(&o, o.self, "copy-assignment from");
        key = o.key;
        ++registry().copy_assign;
        return *this;
    }
    TrackedT& operator=(TrackedT&& o) noexcept
    {
        registry().check_use(this, self, "move-assignment to");
        registry().check_use(&o, o.self, "move-assignment from");
        if (this != &o)
        {
            key = o.key;
            o.key = WILD;
        }
        ++registry().move_assign;
        return *this;
    }
    ~TrackedT() { registry().on_destroy(this, self); }

    friend bool operator==(const TrackedT& a, const TrackedT& b)
    {
        registry().check_use(&a, a.self, "comparison of");
        registry().check_use(&b, b.self, "comparison of");
        return a.key == b.key;
    }
    friend bool operator<(const TrackedT& a, const TrackedT& b)
    {
        registry().check_use(&a, a.self, "comparison of");
        registry().check_use(&b, b.self, "comparison of");
        return a.key < b.key;
    }
};

using Tracked = TrackedT<1, true>;

struct TrackedMO : TrackedT<2, false>
{
    using Base = TrackedT<2, false>;
    explicit TrackedMO(int64_t k) : Base(k) {}
    TrackedMO(const TrackedMO&) = delete;
    TrackedMO& operator=(const TrackedMO&) = delete;
    TrackedMO(TrackedMO&&) noexcept = default;
    TrackedMO& operator=(TrackedMO&&) noexcept = default;
};

// Trivially destructible but not trivially copyable/movable: holds a pointer to itself that only its own constructors
// maintain. A bytewise relocation (memcpy instead of the move constructor) leaves the pointer dangling.
struct SelfRef
{
    int64_t key;
    const SelfRef* self;
    explicit SelfRef(int64_t k) noexcept : key(k), self(this) {}
    SelfRef(const SelfRef& o) noexcept : key(o.intact() ? o.key : -4000), self(this) {}
    SelfRef(SelfRef&& o) noexcept : key(o.intact() ? o.key : -4000), self(this) {}
    SelfRef& operator=(const SelfRef& o) noexcept
    {
        key = o.intact() ? o.key : -4000;
        return *this;
    }
    SelfRef& operator=(SelfRef&& o) noexcept
    {
        key = o.intact() ? o.key : -4000;
        return *this;
    }
    bool intact() const noexcept { return self == this; }
    friend bool operator==(const SelfRef& a, const SelfRef& b) { return a.key == b.key; }
    friend bool operator<(const SelfRef& a, const SelfRef& b) { return a.key < b.key; }
};
static_assert(std::is_trivially_destructible_v<SelfRef> && !std::is_trivially_move_constructible_v<SelfRef>);

// Move-only but trivially movable (the usual shape of a handle / id wrapper).
struct Handle
{
    int64_t fd;
    explicit Handle(int64_t k) noexcept : fd(k) {}
    Handle(Handle&&) = default;
    Handle& operator=(Handle&&) = default;
    Handle(const Handle&) = delete;
    Handle& operator=(const Handle&) = delete;
    friend bool operator==(const Handle& a, const Handle& b) { return a.fd == b.fd; }
    friend bool operator<(const Handle& a, const Handle& b) { return a.fd < b.fd; }
};
static_assert(std::is_trivially_move_constructible_v<Handle> && !std::is_copy_constructible_v<Handle>);

// Trivially copy/move constructible and trivially destructible, but with a user-provided assignment operator that
// leaves a trace: a stamp from a monotonic clock. Copying the bytes instead of calling operator= (memmove of a run of
// fields on reference assignment, byte swap on swap) carries the source's old stamp along with its value.
inline uint32_t g_stamp_clock = 0;
struct Stamped
{
    int32_t value;
    uint32_t stamp;
    explicit Stamped(int64_t k) noexcept : value(static_cast<int32_t>(k)), stamp(0) {}
    Stamped(const Stamped&) = default;
    Stamped& operator=(const Stamped& o) noexcept
    {
        value = o.value;
        stamp = ++g_stamp_clock;
        return *this;
    }
    friend bool operator==(const Stamped& a, const Stamped& b) { return a.value == b.value; }
    friend bool operator<(const Stamped& a, const Stamped& b) { return a.value < b.value; }
};
static_assert(std::is_trivially_copy_constructible_v<Stamped> && std::is_trivially_move_constructible_v<Stamped> &&
              std::is_trivially_destructible_v<Stamped> && !std::is_trivially_copy_assignable_v<Stamped> &&
              !std::is_trivially_move_assignable_v<Stamped> && std::is_move_assignable_v<Stamped>);

// Asymmetric assignment: the library keeps one table of bytewise-assignable field runs for copy assignment
// (is_trivially_copy_assignable) and one for move assignment (is_trivially_move_assignable). MvStamped has a trivial copy
// assignment and a user-provided move assignment, CpStamped the reverse; both leave the same kind of stamp as Stamped.
// A move (copy) through references that changes the value of a MvStamped (CpStamped) must have run its operator.
struct MvStamped
{
    int32_t value;
    uint32_t stamp;
    explicit MvStamped(int64_t k) noexcept : value(static_cast<int32_t>(k)), stamp(0) {}
    MvStamped(const MvStamped&) = default;
    MvStamped(MvStamped&&) = default;
    MvStamped& operator=(const MvStamped&) = default;
    MvStamped& operator=(MvStamped&& o) noexcept
    {
        value = o.value;
        stamp = ++g_stamp_clock;
        return *this;
    }
    friend bool operator==(const MvStamped& a, const MvStamped& b) { return a.value == b.value; }
    friend bool operator<(const MvStamped& a, const MvStamped& b) { return a.value < b.value; }
};
static_assert(std::is_trivially_copy_assignable_v<MvStamped> && !std::is_trivially_move_assignable_v<MvStamped> &&
              std::is_trivially_move_constructible_v<MvStamped> && std::is_trivially_destructible_v<MvStamped>);
struct CpStamped
{
    int32_t value;
    uint32_t stamp;
    explicit CpStamped(int64_t k) noexcept : value(static_cast<int32_t>(k)), stamp(0) {}
    CpStamped(const CpStamped&) = default;
    CpStamped(CpStamped&&) = default;
    CpStamped& operator=(const CpStamped& o) noexcept
    {
        value = o.value;
        stamp = ++g_stamp_clock;
        return *this;
    }
    CpStamped& operator=(CpStamped&&) = default;
    friend bool operator==(const CpStamped& a, const CpStamped& b) { return a.value == b.value; }
    friend bool operator<(const CpStamped& a, const CpStamped& b) { return a.value < b.value; }
};
static_assert(!std::is_trivially_copy_assignable_v<CpStamped> && std::is_trivially_move_assignable_v<CpStamped> &&
              std::is_trivially_copy_constructible_v<CpStamped> && std::is_trivially_destructible_v<CpStamped>);
// 0: no stamp, 1: every assignment stamps (Stamped), 2: only move assignment stamps, 3: only copy assignment stamps
template <class T>
inline constexpr int stamp_kind_v = std::is_same_v<T, Stamped> ? 1 : std::is_same_v<T, MvStamped> ? 2 : std::is_same_v<T, CpStamped> ? 3 : 0;

// User-provided copy construction / copy assignment (they count: a copy is one generation older than its source) but a
// defaulted, trivial move constructor and a trivial destructor - e.g. a handle whose copy clones a slot. Relocating it
// bytewise is fine, copying it bytewise skips the clone.
struct Cloned
{
    int32_t key;
    uint32_t generation{0};
    explicit Cloned(int64_t k) noexcept : key(static_cast<int32_t>(k)) {}
    Cloned(const Cloned& o) noexcept : key(o.key), generation(o.generation + 1) {}
    Cloned(Cloned&&) = default;
    Cloned& operator=(const Cloned& o) noexcept
    {
        key = o.key;
        generation = o.generation + 1;
        return *this;
    }
    Cloned& operator=(Cloned&&) = default;
    friend bool operator==(const Cloned& a, const Cloned& b) { return a.key == b.key; }
    friend bool operator<(const Cloned& a, const Cloned& b) { return a.key < b.key; }
};
static_assert(!std::is_trivially_copy_constructible_v<Cloned> && std::is_trivially_move_constructible_v<Cloned> && std::is_trivially_destructible_v<Cloned>);

template <class T>
inline constexpr bool is_tracked_v = std::is_same_v<T, Tracked> || std::is_same_v<T, TrackedMO>;

// ---------------------------------------------------------------------------------------------------------------
// small byte structs with odd sizes
// ---------------------------------------------------------------------------------------------------------------
template <std::size_t N>
struct BN
{
    unsigned char b[N];
    friend bool operator==(const BN& x, const BN& y) { return std::memcmp(x.b, y.b, N) == 0; }
    friend bool operator<(const BN& x, const BN& y) { return std::memcmp(x.b, y.b, N) < 0; }
};
using B3 = BN<3>;
using B5 = BN<5>;
using B12 = BN<12>;
using B24 = BN<24>;

enum class E8 : uint8_t
{
};
enum class E32 : uint32_t
{
};

// ---------------------------------------------------------------------------------------------------------------
// Val<T>: make(key) and key(value).  Keys are small non-negative integers (< 251).
// ---------------------------------------------------------------------------------------------------------------
template <class T, class = void>
struct Val;

// Every second floating-point zero that is made is a negative zero: +0.0 and -0.0 are equal values (same key) with
// different object representations, which is exactly what a bytewise comparison must not confuse.
inline unsigned g_zero_toggle = 0;

template <class T>
struct Val<T, std::enable_if_t<std::is_arithmetic_v<T> && !std::is_same_v<T, bool>>>
{
    static T make(int64_t k)
    {
        if constexpr (std::is_floating_point_v<T>)
            if (k == 0 && (++g_zero_toggle & 1)) return -T(0);
        return static_cast<T>(k);
    }
    static int64_t key(const T& v) { return static_cast<int64_t>(v); }
};
template <>
struct Val<bool>
{
    static bool make(int64_t k) { return (k & 1) != 0; }
    static int64_t key(const bool& v) { return v ? 1 : 0; }
};
template <>
struct Val<std::byte>
{
    static std::byte make(int64_t k) { return static_cast<std::byte>(k); }
    static int64_t key(const std::byte& v) { return static_cast<int64_t>(v); }
};
template <class T>
struct Val<T, std::enable_if_t<std::is_enum_v<T> && !std::is_same_v<T, std::byte>>>
{
    static T make(int64_t k) { return static_cast<T>(k); }
    static int64_t key(const T& v) { return static_cast<int64_t>(v); }
};
template <std::size_t N>
struct Val<BN<N>>
{
    static BN<N> make(int64_t k)
    {
        BN<N> r;
        for (std::size_t i = 0; i < N; ++i) r.b[i] = static_cast<unsigned char>(k + (i == 0 ? 0 : 0));
        return r;
    }
    static int64_t key(const BN<N>& v)
    {
        for (std::size_t i = 1; i < N; ++i)
            if (v.b[i] != v.b[0]) return -1000 - static_cast<int64_t>(i);  // torn value
        return v.b[0];
    }
};
inline int g_ptr_pool[256];
template <>
struct Val<const int*>
{
    static const int* make(int64_t k) { return &g_ptr_pool[k & 255]; }
    static int64_t key(const int* const& v)
    {
        if (v < g_ptr_pool || v >= g_ptr_pool + 256) return -2000;
        return v - g_ptr_pool;
    }
};
template <int Tag, bool C>
struct Val<TrackedT<Tag, C>>
{
    static TrackedT<Tag, C> make(int64_t k) { return TrackedT<Tag, C>(k); }
    static int64_t key(const TrackedT<Tag, C>& v)
    {
        registry().check_use(&v, v.self, "read");
        return v.key;
    }
};
template <>
struct Val<TrackedMO>
{
    static TrackedMO make(int64_t k) { return TrackedMO(k); }
    static int64_t key(const TrackedMO& v)
    {
        registry().check_use(&v, v.self, "read");
        return v.key;
    }
};
template <>
struct Val<SelfRef>
{
    static SelfRef make(int64_t k) { return SelfRef(k); }
    static int64_t key(const SelfRef& v) { return v.intact() ? v.key : -4000; }
};
template <>
struct Val<Handle>
{
    static Handle make(int64_t k) { return Handle(k); }
    static int64_t key(const Handle& v) { return v.fd; }
};
template <>
struct Val<Cloned>
{
    static Cloned make(int64_t k) { return Cloned(k); }
    static int64_t key(const Cloned& v) { return v.key; }
};
template <>
struct Val<Stamped>
{
    static Stamped make(int64_t k) { return Stamped(k); }
    static int64_t key(const Stamped& v) { return v.value; }
};
template <>
struct Val<MvStamped>
{
    static MvStamped make(int64_t k) { return MvStamped(k); }
    static int64_t key(const MvStamped& v) { return v.value; }
};
template <>
struct Val<CpStamped>
{
    static CpStamped make(int64_t k) { return CpStamped(k); }
    static int64_t key(const CpStamped& v) { return v.value; }
};
template <>
struct Val<std::string>
{
    // long enough to defeat SSO for most keys, short for some
    static std::string make(int64_t k) { return (k % 3 == 0) ? std::to_string(k) : std::string(24, 'a' + char(k % 26)) + std::to_string(k); }
    static int64_t key(const std::string& v)
    {
        if (v.empty()) return WILD;  // moved-from
        std::size_t i = 0;
        while (i < v.size() && (v[i] < '0' || v[i] > '9')) ++i;
        int64_t k = std::strtoll(v.c_str() + i, nullptr, 10);
        return (v == make(k)) ? k : -3000;
    }
};
template <>
struct Val<std::unique_ptr<int>>
{
    static std::unique_ptr<int> make(int64_t k) { return std::make_unique<int>(static_cast<int>(k)); }
    static int64_t key(const std::unique_ptr<int>& v) { return v ? *v : WILD; }
};

// normalised model key for a generated key
template <class T>
int64_t norm_key(int64_t k)
{
    if constexpr (is_tracked_v<T> || std::is_same_v<T, std::unique_ptr<int>> || std::is_same_v<T, SelfRef> || std::is_same_v<T, Handle> || stamp_kind_v<T> != 0 || std::is_same_v<T, Cloned>)
        return k;
    else
    {
        auto v = Val<T>::make(k);
        return Val<T>::key(v);
    }
}

template <class T>
inline constexpr bool is_trivial_value_v = std::is_trivially_copyable_v<T>&& std::is_trivially_destructible_v<T>;
}  // namespace vf
