// C15 engine: rapidcheck generates key vectors for every registered cell (stored type x source type x form x kind).
#include "c15.hpp"
#include "common.hpp"

#include <rapidcheck.h>

#include <fstream>
#include <iostream>
#include <sys/wait.h>
#include <unistd.h>
#include <unordered_set>

namespace c15
{
std::vector<Cell>& cells()
{
    static std::vector<Cell> c;
    return c;
}
}  // namespace c15

using namespace c15;

static std::string cell_name(const Cell& c)
{
    return std::string(c.source) + " -> " + c.stored + " | " + form_name(c.form) + " | " + (c.varying ? "VaryingSize" : "FixedSize");
}

static std::string keys_text(const std::vector<int>& k)
{
    std::string s;
    for (std::size_t i = 0; i < k.size(); ++i) s += (i ? " " : "") + std::to_string(k[i]);
    return s;
}

int main(int argc, char** argv)
{
    int cases = 100;
    uint64_t seed = 1;
    std::string stats_path, replay_out, replay_in;
    for (int i = 1; i < argc; ++i)
    {
        std::string a = argv[i];
        auto next = [&]() -> std::string { return i + 1 < argc ? argv[++i] : ""; };
        if (a == "--cases") cases = std::atoi(next().c_str());
        else if (a == "--seed") seed = std::strtoull(next().c_str(), nullptr, 10);
        else if (a == "--stats") stats_path = next();
        else if (a == "--replay-out") replay_out = next();
        else if (a == "--replay") replay_in = next();
    }
    if (!replay_in.empty())
    {
        std::ifstream in(replay_in);
        std::string line, cellname;
        std::vector<int> keys;
        while (std::getline(in, line))
        {
            if (line.rfind("cell ", 0) == 0) cellname = line.substr(5);
            if (line.rfind("keys", 0) == 0)
            {
                std::istringstream is(line.substr(4));
                int k;
                while (is >> k) keys.push_back(k);
            }
        }
        for (auto& c : cells())
            if (cell_name(c) == cellname)
            {
                Outcome o = c.run(keys);
                if (o.ok)
                {
                    std::cout << "REPLAY-PASS\n";
                    return 0;
                }
                std::cout << "REPLAY-FAIL code=C15.wrong_stored_value msg=" << o.msg << "\n";
                return 1;
            }
        std::cout << "REPLAY-NOCELL\n";
        return 3;
    }
    std::string params = "seed=" + std::to_string(seed) + " max_success=" + std::to_string(cases) + " max_size=9";
    setenv("RC_PARAMS", params.c_str(), 1);
    uint64_t evaluations = 0;
    uint64_t nontrivial_count = 0;
    std::vector<std::string> samples;
    struct Failure
    {
        std::string cell, keys, msg;
    };
    std::vector<Failure> failures;
    auto keyGen = rc::gen::container<std::vector<int>>(rc::gen::resize(100, rc::gen::inRange(0, 200)));
    std::size_t idx = 0;
    for (auto& c : cells())
    {
        ++idx;
        // every cell runs in a forked child: a sanitizer abort in one cell must not hide the others
        int fds[2];
        if (pipe(fds) != 0) return 4;
        const std::string cur = stats_path.empty() ? std::string() : stats_path + ".cur" + std::to_string(idx);
        pid_t pid = fork();
        if (pid == 0)
        {
            close(fds[0]);
            std::vector<int> last_keys;
            std::string last_msg;
            uint64_t evals = 0;
            std::unordered_set<uint64_t> nt;
            std::string sample;
            const bool ok = rc::check(cell_name(c),
                                      [&]
                                      {
                                          const auto keys = *keyGen;
                                          ++evals;
                                          if (!cur.empty())
                                          {
                                              std::ofstream o(cur);
                                              o << keys_text(keys);
                                          }
                                          Outcome o = c.run(keys);
                                          if (!o.ok)
                                          {
                                              last_keys = keys;
                                              last_msg = o.msg;
                                              RC_FAIL(o.msg);
                                          }
                                          if (o.nontrivial && c.memcpy_selectable)
                                          {
                                              uint64_t h = vf::mix64(idx);
                                              for (int k : keys) h = vf::mix64(h ^ static_cast<uint64_t>(k));
                                              if (nt.insert(h).second && sample.empty() && keys.size() <= 6) sample = cell_name(c) + " | keys " + keys_text(keys);
                                          }
                                      });
            std::string out = std::to_string(evals) + "\n" + std::to_string(nt.size()) + "\n" + sample + "\n" + (ok ? "OK" : "FAIL") + "\n" + keys_text(last_keys) + "\n" + last_msg + "\n";
            (void)!write(fds[1], out.data(), out.size());
            close(fds[1]);
            _exit(0);
        }
        close(fds[1]);
        std::string out;
        char buf[4096];
        ssize_t n;
        while ((n = read(fds[0], buf, sizeof buf)) > 0) out.append(buf, static_cast<std::size_t>(n));
        close(fds[0]);
        int status = 0;
        waitpid(pid, &status, 0);
        std::istringstream is(out);
        std::string l_evals, l_nt, l_sample, l_ok, l_keys, l_msg;
        std::getline(is, l_evals);
        std::getline(is, l_nt);
        std::getline(is, l_sample);
        std::getline(is, l_ok);
        std::getline(is, l_keys);
        std::getline(is, l_msg);
        if (l_ok.empty())
        {
            // the child died (sanitizer report): the keys of the case it was running are in the .cur file
            std::string keys;
            std::ifstream in(cur);
            std::getline(in, keys);
            failures.push_back({cell_name(c), keys, "process died while running this cell (sanitizer report: memory error or invalid value)"});
            continue;
        }
        evaluations += std::strtoull(l_evals.c_str(), nullptr, 10);
        nontrivial_count += std::strtoull(l_nt.c_str(), nullptr, 10);
        if (!l_sample.empty() && samples.size() < 4) samples.push_back(l_sample);
        if (l_ok != "OK") failures.push_back({cell_name(c), l_keys, l_msg});
        if (!cur.empty()) std::remove(cur.c_str());
    }
    if (!stats_path.empty())
    {
        std::ofstream o(stats_path);
        o << "{\"cells\": " << cells().size() << ", \"evaluations\": " << evaluations << ", \"distinct_nontrivial\": " << nontrivial_count << ", \"samples\": [";
        for (std::size_t i = 0; i < samples.size(); ++i) o << (i ? ", " : "") << "\"" << samples[i] << "\"";
        o << "], \"failures\": [";
        for (std::size_t i = 0; i < failures.size(); ++i)
        {
            std::string m = failures[i].msg;
            for (auto& ch : m)
                if (ch == '"' || ch == '\\' || ch == '\n') ch = '\'';
            o << (i ? ", " : "") << "{\"cell\": \"" << failures[i].cell << "\", \"keys\": \"" << failures[i].keys << "\", \"msg\": \"" << m << "\"}";
        }
        o << "]}\n";
    }
    std::cout << (failures.empty() ? "ENGINE-PASS" : "ENGINE-FAIL") << " cells=" << cells().size() << " evaluations=" << evaluations << "\n";
    return failures.empty() ? 0 : 1;
}
