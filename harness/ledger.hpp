// Checking ("ledger") allocator: records every allocate/deallocate, imposes exact alignment, guard zones, junk fill,
// allocator identity (arena) and a programmable fail-the-k-th-allocation counter.
#pragma once
#include "common.hpp"

#include <cstddef>
#include <cstring>
#include <map>
#include <new>
#include <string>
#include <vector>

#if defined(__has_feature)
#if __has_feature(address_sanitizer)
#define VF_ASAN 1
#endif
#endif
#if defined(__SANITIZE_ADDRESS__)
#define VF_ASAN 1
#endif
#ifdef VF_ASAN
#include <sanitizer/asan_interface.h>
#define VF_POISON(p, n) ASAN_POISON_MEMORY_REGION(p, n)
#define VF_UNPOISON(p, n) ASAN_UNPOISON_MEMORY_REGION(p, n)
#else
#define VF_POISON(p, n) ((void)0)
#define VF_UNPOISON(p, n) ((void)0)
#endif

namespace vf
{
struct Block
{
    unsigned char* user{};
    std::size_t bytes{};
    std::size_t tsize{};
    std::size_t talign{};
    int arena{};
    uint64_t seq{};
    unsigned char* raw{};
    std::size_t raw_bytes{};
    bool is_table{};  // value_type is std::size_t: the element address table of a VaryingSize vector
};

struct SoftError
{
    std::string code;
    std::string msg;
};

struct Ledger
{
    static constexpr std::size_t GUARD = 64;
    static constexpr unsigned char CANARY = 0xA5;

    std::map<std::uintptr_t, Block> live;  // keyed by user pointer
    uint64_t seq{};
    uint64_t n_alloc{}, n_dealloc{};
    uint64_t bytes_alloc{}, bytes_dealloc{};
    long fail_countdown{-1};  // k>0: the k-th allocation from now throws
    bool always_equal_mode{};
    uint32_t junk{};
    std::size_t op_max_data_bytes{};  // largest non-table block requested since the runner last reset it
    std::vector<SoftError> errors;
    void (*on_release)(const unsigned char* lo, const unsigned char* hi){};  // lets the tracked registry see frees

    void error(const char* code, const std::string& m)
    {
        if (errors.size() < 16) errors.push_back({code, m});
    }

    void reset(uint32_t junk_seed)
    {
        for (auto& [k, b] : live)
        {
            VF_UNPOISON(b.raw, b.raw_bytes);
            std::free(b.raw);
        }
        live.clear();
        seq = n_alloc = n_dealloc = bytes_alloc = bytes_dealloc = 0;
        fail_countdown = -1;
        junk = junk_seed;
        op_max_data_bytes = 0;
        errors.clear();
    }

    // drop the blocks of a scratch arena from the books (used by probes that must not count as traffic)
    void forget_arena(int arena)
    {
        for (auto it = live.begin(); it != live.end();)
            if (it->second.arena == arena)
            {
                VF_UNPOISON(it->second.raw, it->second.raw_bytes);
                std::free(it->second.raw);
                it = live.erase(it);
            }
            else
                ++it;
    }

    void* allocate(std::size_t n, std::size_t tsize, std::size_t talign, int arena, bool is_table = false)
    {
        if (fail_countdown > 0 && --fail_countdown == 0)
        {
            fail_countdown = -1;
            throw std::bad_alloc();
        }
        const std::size_t bytes = n * tsize;
        if (bytes > (std::size_t{1} << 26))
        {
            // nothing in the generated domain needs more than a few KiB: a request like this comes from garbage
            // bookkeeping. Die quickly (the engine records the case) instead of filling gigabytes with canaries.
            std::fprintf(stderr, "LEDGER: absurd allocation request of %zu bytes (n=%zu, value_type size %zu)\n", bytes, n, tsize);
            std::abort();
        }
        const std::size_t al = talign < 1 ? 1 : talign;
        // user pointer: aligned to exactly `al`, deliberately NOT to 2*al
        const std::size_t big = (al * 2 < 128) ? 128 : al * 2;
        const std::size_t raw_bytes = bytes + 2 * GUARD + 2 * big + al;
        auto* raw = static_cast<unsigned char*>(std::malloc(raw_bytes));
        if (!raw) die("malloc failed in ledger");
        std::uintptr_t p = reinterpret_cast<std::uintptr_t>(raw) + GUARD;
        p = (p + big - 1) / big * big;  // aligned to big (>= 2*al)
        p += al;                        // now p % al == 0 and p % (2*al) == al != 0
        auto* user = reinterpret_cast<unsigned char*>(p);
        std::memset(raw, CANARY, raw_bytes);
        // junk fill (deterministic in junk seed and sequence number)
        uint64_t s = mix64((uint64_t(junk) << 32) ^ seq);
        for (std::size_t i = 0; i < bytes; ++i)
        {
            if ((i & 7) == 0) s = mix64(s);
            user[i] = static_cast<unsigned char>(s >> ((i & 7) * 8));
        }
        Block b{user, bytes, tsize, talign, arena, seq++, raw, raw_bytes, is_table};
        live[p] = b;
        if (!is_table && bytes > op_max_data_bytes) op_max_data_bytes = bytes;
        ++n_alloc;
        bytes_alloc += bytes;
        VF_POISON(raw, static_cast<std::size_t>(user - raw));
        VF_POISON(user + bytes, raw_bytes - static_cast<std::size_t>(user + bytes - raw));
        return user;
    }

    bool guards_ok(const Block& b)
    {
        VF_UNPOISON(b.raw, b.raw_bytes);
        bool ok = true;
        for (unsigned char* q = b.user - GUARD; q < b.user; ++q)
            if (*q != CANARY) ok = false;
        for (unsigned char* q = b.user + b.bytes; q < b.user + b.bytes + GUARD; ++q)
            if (*q != CANARY) ok = false;
        VF_POISON(b.raw, static_cast<std::size_t>(b.user - b.raw));
        VF_POISON(b.user + b.bytes, b.raw_bytes - static_cast<std::size_t>(b.user + b.bytes - b.raw));
        return ok;
    }

    void check_all_guards()
    {
        for (auto& [k, b] : live)
            if (!guards_ok(b)) error("guard_zone_overwritten", "guard zone of block #" + std::to_string(b.seq) + " damaged");
    }

    void deallocate(void* ptr, std::size_t n, std::size_t tsize, int arena)
    {
        ++n_dealloc;
        auto it = live.find(reinterpret_cast<std::uintptr_t>(ptr));
        if (it == live.end())
        {
            error("dealloc_unknown_pointer", "deallocate of a pointer that is not a live block (double free or foreign pointer)");
            return;
        }
        Block b = it->second;
        if (b.bytes != n * tsize)
            error("dealloc_wrong_size", "block #" + std::to_string(b.seq) + " allocated with " + std::to_string(b.bytes) +
                                            " bytes, deallocated with " + std::to_string(n * tsize));
        if (b.tsize != tsize) error("dealloc_wrong_type", "deallocated through an allocator of different value_type size");
        if (!always_equal_mode && b.arena != arena)
            error("dealloc_wrong_arena", "block #" + std::to_string(b.seq) + " from arena " + std::to_string(b.arena) +
                                             " deallocated through arena " + std::to_string(arena));
        if (!guards_ok(b)) error("guard_zone_overwritten", "guard zone of block #" + std::to_string(b.seq) + " damaged (seen at free)");
        bytes_dealloc += b.bytes;
        if (on_release) on_release(b.user, b.user + b.bytes);
        live.erase(it);
        VF_UNPOISON(b.raw, b.raw_bytes);
        std::free(b.raw);
    }

    const Block* find_containing(const void* p) const
    {
        auto u = reinterpret_cast<std::uintptr_t>(p);
        auto it = live.upper_bound(u);
        if (it == live.begin()) return nullptr;
        --it;
        const Block& b = it->second;
        if (u >= reinterpret_cast<std::uintptr_t>(b.user) && u <= reinterpret_cast<std::uintptr_t>(b.user) + b.bytes) return &b;
        return nullptr;
    }
};

inline Ledger& ledger()
{
    static Ledger l;
    return l;
}

// Kind: compile-time allocator traits
template <bool POCCA, bool POCMA, bool POCS, bool AE>
struct LK
{
    static constexpr bool pocca = POCCA, pocma = POCMA, pocs = POCS, ae = AE;
};

// SOCCC returns arena + 100 (a distinguishable arena) for stateful kinds.
template <class T, class K>
struct LedgerAlloc
{
    using value_type = T;
    using propagate_on_container_copy_assignment = std::bool_constant<K::pocca>;
    using propagate_on_container_move_assignment = std::bool_constant<K::pocma>;
    using propagate_on_container_swap = std::bool_constant<K::pocs>;
    using is_always_equal = std::bool_constant<K::ae>;
    template <class U>
    struct rebind
    {
        using other = LedgerAlloc<U, K>;
    };

    int arena{0};

    LedgerAlloc() = default;
    explicit LedgerAlloc(int a) noexcept : arena(a) {}
    template <class U>
    LedgerAlloc(const LedgerAlloc<U, K>& o) noexcept : arena(o.arena)
    {
    }

    T* allocate(std::size_t n) { return static_cast<T*>(ledger().allocate(n, sizeof(T), alignof(T), arena, std::is_same_v<T, std::size_t>)); }
    void deallocate(T* p, std::size_t n) noexcept { ledger().deallocate(p, n, sizeof(T), arena); }

    LedgerAlloc select_on_container_copy_construction() const noexcept
    {
        if constexpr (K::ae)
            return *this;
        else
            return LedgerAlloc(arena >= 100 ? arena : arena + 100);
    }

    template <class U>
    friend bool operator==(const LedgerAlloc& a, const LedgerAlloc<U, K>& b) noexcept
    {
        return K::ae || a.arena == b.arena;
    }
    template <class U>
    friend bool operator!=(const LedgerAlloc& a, const LedgerAlloc<U, K>& b) noexcept
    {
        return !(a == b);
    }
};

inline int soccc_arena(int arena, bool ae) { return ae ? arena : (arena >= 100 ? arena : arena + 100); }
}  // namespace vf
