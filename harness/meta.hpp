// Compile-time description of a parameter list.
#pragma once
#include "values.hpp"

#include <cntgs/contiguous.hpp>

#include <array>
#include <tuple>
#include <type_traits>

namespace vf
{
template <class... P>
struct TL
{
};

enum PK
{
    PLAIN,
    FIXED,
    VARYING
};

template <class P>
struct PInfo
{
    static constexpr PK kind = PLAIN;
    using T = P;
    static constexpr std::size_t A = 1;
};
template <class T_, std::size_t A_>
struct PInfo<cntgs::AlignAs<T_, A_>>
{
    static constexpr PK kind = PLAIN;
    using T = T_;
    static constexpr std::size_t A = A_;
};
template <class X>
struct PInfo<cntgs::FixedSize<X>>
{
    static constexpr PK kind = FIXED;
    using T = typename PInfo<X>::T;
    static constexpr std::size_t A = PInfo<X>::A;
};
template <class X>
struct PInfo<cntgs::VaryingSize<X>>
{
    static constexpr PK kind = VARYING;
    using T = typename PInfo<X>::T;
    static constexpr std::size_t A = PInfo<X>::A;
};

template <class... P>
struct ListInfo
{
    static constexpr std::size_t N = sizeof...(P);
    template <std::size_t I>
    using PI = PInfo<std::tuple_element_t<I, std::tuple<P...>>>;
    template <std::size_t I>
    using T = typename PI<I>::T;

    static constexpr std::array<PK, N> kinds{PInfo<P>::kind...};
    static constexpr std::array<std::size_t, N> aligns{PInfo<P>::A...};
    static constexpr std::array<std::size_t, N> sizes{sizeof(typename PInfo<P>::T)...};
    static constexpr std::array<bool, N> trivial{is_trivial_value_v<typename PInfo<P>::T>...};
    static constexpr std::array<bool, N> tracked{is_tracked_v<typename PInfo<P>::T>...};
    static constexpr std::array<int, N> stamp_kind{stamp_kind_v<typename PInfo<P>::T>...};
    static constexpr std::array<bool, N> cloned{std::is_same_v<typename PInfo<P>::T, Cloned>...};
    // types whose operator< orders values like the model orders their keys (arithmetic, enums, pointers into one array)
    static constexpr std::array<bool, N> key_ordered{(std::is_arithmetic_v<typename PInfo<P>::T> || std::is_enum_v<typename PInfo<P>::T> || std::is_pointer_v<typename PInfo<P>::T>)...};
    static constexpr bool ALL_KEY_ORDERED = ((std::is_arithmetic_v<typename PInfo<P>::T> || std::is_enum_v<typename PInfo<P>::T> || std::is_pointer_v<typename PInfo<P>::T>) && ...);
    static constexpr bool ANY_CLONED = (std::is_same_v<typename PInfo<P>::T, Cloned> || ...);
    static constexpr bool ANY_STAMPED = ((stamp_kind_v<typename PInfo<P>::T> != 0) || ...);
    // arithmetic value types: their spans can be emplaced from ranges of other arithmetic types
    static constexpr std::array<bool, N> convertible{std::is_arithmetic_v<typename PInfo<P>::T>...};

    static constexpr std::size_t count_kind(PK k)
    {
        std::size_t n = 0;
        for (auto x : kinds) n += (x == k);
        return n;
    }
    static constexpr std::size_t NF = count_kind(FIXED);
    static constexpr std::size_t NV = count_kind(VARYING);
    static constexpr std::size_t AMAX = []
    {
        std::size_t a = 1;
        for (auto x : aligns) a = x > a ? x : a;
        return a;
    }();
    static constexpr bool is_count(std::size_t i) { return i + 1 < N && kinds[i + 1] == VARYING; }
    static constexpr std::size_t fixed_index(std::size_t i)
    {
        std::size_t n = 0;
        for (std::size_t k = 0; k < i; ++k) n += (kinds[k] == FIXED);
        return n;
    }
    static constexpr std::size_t varying_index(std::size_t i)
    {
        std::size_t n = 0;
        for (std::size_t k = 0; k < i; ++k) n += (kinds[k] == VARYING);
        return n;
    }
    static constexpr bool ALL_COPYABLE = (std::is_copy_constructible_v<typename PInfo<P>::T> && ...);
    static constexpr bool ALL_COPY_ASSIGNABLE = (std::is_copy_assignable_v<typename PInfo<P>::T> && ...);
    static constexpr bool ALL_TRIVIAL = (is_trivial_value_v<typename PInfo<P>::T> && ...);
    static constexpr bool ANY_TRACKED = (is_tracked_v<typename PInfo<P>::T> || ...);
    static constexpr bool ANY_ALIGNED = AMAX > 1;
    // std::unique_ptr compares by identity, not by the value it holds: content-based comparison oracles do not apply
    static constexpr bool COMPARES_BY_VALUE = (!std::is_same_v<typename PInfo<P>::T, std::unique_ptr<int>> && ...);
    // D13: reference assignment / swap are only offered for lists whose VaryingSize value types are trivially
    // assignable and swappable (ParameterTraits<VaryingSize<...>> has no copy/move/swap members by design)
    static constexpr bool REF_ASSIGNABLE = []
    {
        bool ok = true;
        std::size_t i = 0;
        ((ok = ok && !(PInfo<P>::kind == VARYING && !is_trivial_value_v<typename PInfo<P>::T>), ++i), ...);
        return ok;
    }();
};
}  // namespace vf
