#pragma once
#include "runner.hpp"
