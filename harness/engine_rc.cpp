// rapidcheck engine: generates Programs for one property profile, runs them against the linked configuration,
// shrinks failures, writes the replay file and a stats JSON. Sees no cntgs templates.
#include "common.hpp"
#include "profiles.hpp"

#include <rapidcheck.h>

#include <csignal>
#include <cstring>
#include <fstream>
#include <iostream>
#include <sys/wait.h>
#include <unistd.h>
#include <unordered_set>

extern "C" void __sanitizer_set_death_callback(void (*)(void)) __attribute__((weak));

namespace vf
{
void showValue(const Program& p, std::ostream& os) { os << to_line(p); }
void showValue(const Op& op, std::ostream& os) { os << kind_name(op.kind) << " " << op.a << " " << op.b << " " << op.c << " " << op.d; }
}  // namespace vf

using namespace vf;

static const Program* g_current = nullptr;
static std::string g_crash_path;
static int g_prop = 0;
static std::string g_cfg_name;

static void write_replay(const std::string& path, const Program& p, const std::string& code, const std::string& msg, int op_index)
{
    std::ofstream o(path);
    char pb[8];
    std::snprintf(pb, sizeof pb, "C%02d", g_prop);
    o << "property " << pb << "\n";
    o << "config " << g_cfg_name << "\n";
    o << "code " << code << "\n";
    o << "# " << msg << "\n";
    o << "# failing op index " << op_index << "\n";
    o << to_text(p);
}

static void death_callback()
{
    if (g_current && !g_crash_path.empty())
    {
        write_replay(g_crash_path, *g_current, "crash", "process died while executing this program (sanitizer report / assert / signal)", -1);
    }
}

static void on_signal(int sig)
{
    death_callback();
    std::signal(sig, SIG_DFL);
    std::raise(sig);
}

static std::string json_escape(const std::string& s)
{
    std::string o;
    for (char c : s)
    {
        if (c == '"' || c == '\\')
        {
            o += '\\';
            o += c;
        }
        else if (c == '\n')
            o += "\\n";
        else if (static_cast<unsigned char>(c) < 0x20)
            o += ' ';
        else
            o += c;
    }
    return o;
}

struct Result
{
    bool ok;
    std::string code, msg;
    int op_index;
};

static uint64_t g_fault_runs = 0;
static uint64_t g_fault_cases_multi = 0;
static bool g_last_fault_nontrivial = false;

static Result run_case_plain(const Program& p, Stats& st, unsigned guards, bool isolate);

// C17: counting run, then one forked run per allocation of the target (last) op with that allocation failing
static Result run_fault_case(const Program& p, Stats& st, unsigned guards, bool isolate)
{
    ConfigEntry& cfg = the_config();
    g_fault_k = 0;
    g_last_fault_nontrivial = false;
    Result r0 = run_case_plain(p, st, guards, isolate);
    if (!r0.ok) return r0;
    uint64_t m = st.last_op_allocs;
    if (isolate)
    {
        // the child cannot report the count through Stats: recount in-process is unsafe, so probe with increasing k
        m = 8;
    }
    if (m >= 2 || (cfg.caps & CAP_TRACKED)) g_last_fault_nontrivial = m >= 1;
    if (m >= 2) ++g_fault_cases_multi;
    for (uint64_t k = 1; k <= m; ++k)
    {
        g_fault_k = static_cast<int>(k);
        Stats scratch;
        Result r = run_case_plain(p, scratch, guards, true);
        g_fault_k = 0;
        ++g_fault_runs;
        if (!r.ok)
        {
            r.msg = "with allocation #" + std::to_string(k) + " of the last operation failing: " + r.msg;
            return r;
        }
    }
    return r0;
}

static Result run_case(const Program& p, Stats& st, unsigned guards, bool isolate)
{
    if (g_prop == 17 && !p.ops.empty()) return run_fault_case(p, st, guards, isolate);
    return run_case_plain(p, st, guards, isolate);
}

// run one case, optionally in a forked child so that a crash becomes an ordinary failure
static Result run_case_plain(const Program& p, Stats& st, unsigned guards, bool isolate)
{
    ConfigEntry& cfg = the_config();
    if (!isolate)
    {
        g_current = &p;
        Verdict v = cfg.run(g_prop, p, st, guards);
        g_current = nullptr;
        return {v.ok, v.code, v.msg, v.op_index};
    }
    int fds[2];
    if (pipe(fds) != 0) die("pipe");
    pid_t pid = fork();
    if (pid < 0) die("fork");
    if (pid == 0)
    {
        close(fds[0]);
        g_crash_path.clear();
        alarm(20);  // a runaway case (garbage size, endless loop) must not stall the campaign: SIGALRM ends the child
        Stats cst;
        Verdict v = cfg.run(g_prop, p, cst, guards);
        std::string out = v.ok ? "OK" : ("FAIL\n" + v.code + "\n" + std::to_string(v.op_index) + "\n" + v.msg);
        (void)!write(fds[1], out.data(), out.size());
        close(fds[1]);
        _exit(0);
    }
    close(fds[1]);
    std::string out;
    char buf[4096];
    ssize_t n;
    while ((n = read(fds[0], buf, sizeof buf)) > 0) out.append(buf, static_cast<std::size_t>(n));
    close(fds[0]);
    int status = 0;
    waitpid(pid, &status, 0);
    ++st.ops_executed;
    if (WIFEXITED(status) && WEXITSTATUS(status) == 0 && out == "OK") return {true, "", "", -1};
    if (out.rfind("FAIL\n", 0) == 0)
    {
        std::istringstream is(out.substr(5));
        std::string code, idx, msg;
        std::getline(is, code);
        std::getline(is, idx);
        std::getline(is, msg, '\0');
        return {false, code, msg, std::atoi(idx.c_str())};
    }
    char pb[8];
    std::snprintf(pb, sizeof pb, "C%02d.", g_prop);
    std::string how = WIFSIGNALED(status) ? ("signal " + std::to_string(WTERMSIG(status))) : ("exit status " + std::to_string(WEXITSTATUS(status)));
    return {false, std::string(pb) + "crash", "child process died (" + how + "): sanitizer report, assertion, terminate or signal", -1};
}

int main(int argc, char** argv)
{
    int cases = 200, maxlen = 30;
    uint64_t seed = 1;
    unsigned guards = 0;
    bool isolate = false;
    std::string stats_path, replay_out, replay_in;
    for (int i = 1; i < argc; ++i)
    {
        std::string a = argv[i];
        auto next = [&]() -> std::string { return i + 1 < argc ? argv[++i] : ""; };
        if (a == "--prop") g_prop = std::atoi(next().c_str());
        else if (a == "--cases") cases = std::atoi(next().c_str());
        else if (a == "--maxlen") maxlen = std::atoi(next().c_str());
        else if (a == "--seed") seed = std::strtoull(next().c_str(), nullptr, 10);
        else if (a == "--guards") guards = static_cast<unsigned>(std::strtoul(next().c_str(), nullptr, 10));
        else if (a == "--stats") stats_path = next();
        else if (a == "--replay-out") replay_out = next();
        else if (a == "--replay") replay_in = next();
        else if (a == "--isolate") isolate = true;
        else if (a == "--describe")
        {
            std::cout << the_config().name << "\n" << the_config().descr << "\ncaps " << the_config().caps << "\n";
            return 0;
        }
    }
    ConfigEntry& cfg = the_config();
    g_cfg_name = cfg.name;
    g_crash_path = replay_out.empty() ? "" : replay_out + ".crash";
    if (__sanitizer_set_death_callback) __sanitizer_set_death_callback(death_callback);
    std::signal(SIGABRT, on_signal);

    if (!replay_in.empty())
    {
        std::ifstream in(replay_in);
        if (!in) die("cannot open replay file " + replay_in);
        // header lines are ignored by parse_program
        Program p;
        std::string all((std::istreambuf_iterator<char>(in)), std::istreambuf_iterator<char>());
        std::istringstream is(all);
        std::string line;
        while (std::getline(is, line))
            if (line.rfind("property ", 0) == 0) g_prop = std::atoi(line.c_str() + 10);
        std::istringstream is2(all);
        parse_program(is2, p);
        Stats st;
        Result r = run_case(p, st, guards, isolate);
        if (r.ok)
        {
            std::cout << "REPLAY-PASS\n";
            return 0;
        }
        std::cout << "REPLAY-FAIL code=" << r.code << " op=" << r.op_index << " msg=" << r.msg << "\n";
        return 1;
    }

    const Profile prof = profile_for(g_prop, cfg.caps);
    unsigned total = 0;
    for (auto& [w, k] : prof.w) total += w;
    auto kindGen = rc::gen::map(rc::gen::resize(100, rc::gen::inRange<unsigned>(0, total)),
                                [prof](unsigned x)
                                {
                                    for (auto& [w, k] : prof.w)
                                    {
                                        if (x < w) return k;
                                        x -= w;
                                    }
                                    return prof.w.back().second;
                                });
    auto fieldGen = [](uint32_t hi) { return rc::gen::resize(100, rc::gen::inRange<uint32_t>(0, hi)); };
    auto opGen = rc::gen::build<Op>(rc::gen::set(&Op::kind, kindGen), rc::gen::set(&Op::a, fieldGen(12)), rc::gen::set(&Op::b, fieldGen(64)),
                                    rc::gen::set(&Op::c, fieldGen(65536)), rc::gen::set(&Op::d, fieldGen(4096)));
    auto newGen = rc::gen::build<Op>(rc::gen::set(&Op::kind, rc::gen::just<uint8_t>(K_NEW)), rc::gen::set(&Op::a, fieldGen(12)),
                                     rc::gen::set(&Op::b, fieldGen(13)), rc::gen::set(&Op::c, fieldGen(257)), rc::gen::set(&Op::d, fieldGen(4096)));
    const unsigned first_new = prof.first_new_percent;
    auto progGen = rc::gen::apply(
        [first_new](uint32_t junk, unsigned coin, Op first, std::vector<Op> rest)
        {
            Program p;
            p.junk = junk;
            if (coin < first_new) p.ops.push_back(first);
            p.ops.insert(p.ops.end(), rest.begin(), rest.end());
            return p;
        },
        fieldGen(65536), fieldGen(100), newGen, rc::gen::container<std::vector<Op>>(opGen));

    // C17: the target operation is appended as the last op
    const auto targets = fault_targets(cfg.caps);
    unsigned ttotal = 0;
    for (auto& [w, k] : targets) ttotal += w;
    auto targetKindGen = rc::gen::map(rc::gen::resize(100, rc::gen::inRange<unsigned>(0, ttotal)),
                                      [targets](unsigned x)
                                      {
                                          for (auto& [w, k] : targets)
                                          {
                                              if (x < w) return k;
                                              x -= w;
                                          }
                                          return targets.back().second;
                                      });
    auto targetGen = rc::gen::build<Op>(rc::gen::set(&Op::kind, targetKindGen), rc::gen::set(&Op::a, fieldGen(12)), rc::gen::set(&Op::b, fieldGen(64)),
                                        rc::gen::set(&Op::c, fieldGen(65536)), rc::gen::set(&Op::d, fieldGen(4096)));
    auto faultProgGen = rc::gen::apply(
        [](Program p, Op target)
        {
            p.ops.push_back(target);
            return p;
        },
        progGen, targetGen);

    Stats st;
    std::unordered_set<uint64_t> distinct_nontrivial;
    std::vector<std::string> samples;
    uint64_t evaluations = 0;
    Program last_fail;
    Result last_fail_res{true, "", "", -1};
    const uint64_t cfg_hash = std::hash<std::string>{}(cfg.name);

    std::string params = "seed=" + std::to_string(seed) + " max_success=" + std::to_string(cases) + " max_size=" + std::to_string(maxlen) +
                         " max_discard_ratio=100 noshrink=0";
    setenv("RC_PARAMS", params.c_str(), 1);

    const bool ok = rc::check(
        [&]
        {
            const Program p = g_prop == 17 ? *faultProgGen : *progGen;
            st.nontrivial = false;
            ++evaluations;
            Result r = run_case(p, st, guards, isolate);
            if (!r.ok)
            {
                last_fail = p;
                last_fail_res = r;
                RC_FAIL(r.code + ": " + r.msg);
            }
            if (g_prop == 17) st.nontrivial = g_last_fault_nontrivial;
            if (st.nontrivial)
            {
                if (distinct_nontrivial.insert(hash_program(p, cfg_hash)).second && samples.size() < 3 && p.ops.size() <= 24) samples.push_back(to_line(p));
            }
        });

    if (!stats_path.empty())
    {
        std::ofstream o(stats_path);
        o << "{\n";
        o << "\"config\": \"" << json_escape(cfg.name) << "\",\n";
        o << "\"descr\": \"" << json_escape(cfg.descr) << "\",\n";
        o << "\"ok\": " << (ok ? "true" : "false") << ",\n";
        o << "\"evaluations\": " << evaluations << ",\n";
        o << "\"distinct_nontrivial\": " << distinct_nontrivial.size() << ",\n";
        o << "\"ops_executed\": " << st.ops_executed << ",\n";
        o << "\"ops_skipped\": " << st.ops_skipped << ",\n";
        o << "\"ops_repaired\": " << st.ops_repaired << ",\n";
        o << "\"guarded\": " << st.guarded << ",\n";
        o << "\"fault_runs\": " << g_fault_runs << ",\n";
        o << "\"fault_cases_with_two_or_more_allocations\": " << g_fault_cases_multi << ",\n";
        o << "\"oracle_checks\": " << st.checks << ",\n";
        o << "\"kinds\": {";
        bool first = true;
        for (int k = 0; k < K_COUNT_; ++k)
            if (st.kind_hist[k])
            {
                o << (first ? "" : ", ") << "\"" << kind_name(k) << "\": " << st.kind_hist[k];
                first = false;
            }
        o << "},\n\"labels\": {";
        first = true;
        for (auto& [l, c] : st.labels)
        {
            o << (first ? "" : ", ") << "\"" << json_escape(l) << "\": " << c;
            first = false;
        }
        o << "},\n\"samples\": [";
        for (std::size_t i = 0; i < samples.size(); ++i) o << (i ? ", " : "") << "\"" << json_escape(samples[i]) << "\"";
        o << "]";
        if (!ok)
        {
            o << ",\n\"failure\": {\"code\": \"" << json_escape(last_fail_res.code) << "\", \"msg\": \"" << json_escape(last_fail_res.msg)
              << "\", \"op_index\": " << last_fail_res.op_index << ", \"program\": \"" << json_escape(to_line(last_fail)) << "\"}";
        }
        o << "\n}\n";
    }
    if (!ok)
    {
        if (!replay_out.empty()) write_replay(replay_out, last_fail, last_fail_res.code, last_fail_res.msg, last_fail_res.op_index);
        std::cout << "ENGINE-FAIL code=" << last_fail_res.code << " msg=" << last_fail_res.msg << "\n";
        return 1;
    }
    std::cout << "ENGINE-PASS evaluations=" << evaluations << " nontrivial=" << distinct_nontrivial.size() << "\n";
    return 0;
}
