// libFuzzer engine (second engine, thorough tier): bytes -> Program -> the same interpreter and monitor as engine_rc.
// Byte layout: [junk lo][junk hi] then 8-byte records [kind][a][b][c lo][c hi][d lo][d hi][reserved].
// Environment: VF_PROP (property number), VF_GUARDS, VF_REPLAY_OUT (where to write the failing program),
//              VF_STATS (stats JSON written at normal exit), VF_DUMP (write the decoded program of every input here).
#include "common.hpp"
#include "profiles.hpp"

#include <cstdlib>
#include <cstring>
#include <fstream>
#include <unordered_set>

using namespace vf;

static int g_prop = 1;
static unsigned g_guards = 0;
static std::string g_replay_out, g_stats, g_dump;
static std::vector<uint8_t> g_kinds;
static uint64_t g_execs = 0;
static std::unordered_set<uint64_t> g_nontrivial;
static std::vector<std::string> g_samples;
static Stats g_stats_acc;

static void write_stats()
{
    if (g_stats.empty()) return;
    std::ofstream o(g_stats);
    o << "{\"evaluations\": " << g_execs << ", \"distinct_nontrivial\": " << g_nontrivial.size() << ", \"ops_executed\": " << g_stats_acc.ops_executed
      << ", \"guarded\": " << g_stats_acc.guarded << ", \"samples\": [";
    for (std::size_t i = 0; i < g_samples.size(); ++i) o << (i ? ", " : "") << "\"" << g_samples[i] << "\"";
    o << "]}\n";
}

extern "C" int LLVMFuzzerInitialize(int*, char***)
{
    if (const char* p = std::getenv("VF_PROP")) g_prop = std::atoi(p);
    if (const char* p = std::getenv("VF_GUARDS")) g_guards = static_cast<unsigned>(std::atoi(p));
    if (const char* p = std::getenv("VF_REPLAY_OUT")) g_replay_out = p;
    if (const char* p = std::getenv("VF_STATS")) g_stats = p;
    if (const char* p = std::getenv("VF_DUMP")) g_dump = p;
    const Profile prof = profile_for(g_prop, the_config().caps);
    for (auto& [w, k] : prof.w)
        for (unsigned i = 0; i < (w + 1) / 2; ++i) g_kinds.push_back(k);
    std::atexit(write_stats);
    if (const char* dir = std::getenv("VF_MAKE_SEEDS"))
    {
        // a few small valid programs as starting corpus (encoded with this binary's own kind table)
        const std::vector<std::vector<Op>> seeds = {
            {{K_NEW, 0, 4, 40, 9}, {K_FILL, 0, 3, 77, 1}, {K_ERASE1, 0, 1, 0, 0}, {K_EMPLACE, 0, 9, 2, 0}},
            {{K_NEW, 4, 3, 64, 2}, {K_EMPLACE, 4, 1, 3, 0}, {K_EMPLACE, 4, 2, 1, 1}, {K_RESERVE, 4, 3, 20, 0}, {K_EMPLACE, 4, 5, 4, 2}, {K_POP, 4, 0, 0, 0}},
            {{K_NEW, 0, 5, 60, 1}, {K_FILL, 0, 1, 5, 0}, {K_ERASE, 0, 1, 2, 0}, {K_CLEAR, 0, 0, 0, 0}, {K_EMPLACE, 0, 7, 1, 3}},
            {{K_NEW, 1, 2, 30, 3}, {K_EMPLACE, 1, 4, 2, 0}, {K_COPYCTOR, 1, 0, 0, 0}, {K_MOVEASSIGN, 1, 0, 0, 0}, {K_SWAP, 1, 0, 0, 0}, {K_DESTROY, 1, 0, 0, 0}},
            {{K_DEFAULT, 2, 0, 0, 0}, {K_RESERVE, 2, 3, 16, 0}, {K_EMPLACE, 2, 3, 1, 0}, {K_ERASE, 2, 0, 1, 0}, {K_COMPARE, 2, 0, 0, 0}},
        };
        int n = 0;
        for (auto& prog : seeds)
        {
            std::string bytes = {char(1), char(0)};
            for (auto& op : prog)
            {
                int idx = -1;
                for (std::size_t i = 0; i < g_kinds.size(); ++i)
                    if (g_kinds[i] == op.kind)
                    {
                        idx = static_cast<int>(i);
                        break;
                    }
                if (idx < 0) continue;
                const char rec[8] = {char(idx), char(op.a), char(op.b), char(op.c & 255), char(op.c >> 8), char(op.d & 255), char(op.d >> 8), 0};
                bytes.append(rec, 8);
            }
            std::ofstream o(std::string(dir) + "/seed" + std::to_string(n++), std::ios::binary);
            o << bytes;
        }
    }
    return 0;
}

static Program decode(const uint8_t* data, size_t size)
{
    Program p;
    if (size < 2) return p;
    p.junk = static_cast<uint32_t>(data[0] | (data[1] << 8));
    for (size_t off = 2; off + 8 <= size && p.ops.size() < 120; off += 8)
    {
        Op op;
        op.kind = g_kinds[data[off] % g_kinds.size()];
        op.a = data[off + 1] % 12;
        op.b = data[off + 2] % 64;
        op.c = static_cast<uint32_t>(data[off + 3] | (data[off + 4] << 8));
        op.d = static_cast<uint32_t>(data[off + 5] | (data[off + 6] << 8)) % 4096;
        p.ops.push_back(op);
    }
    return p;
}

static void write_replay_file(const std::string& path, const Program& p, const std::string& code, const std::string& msg, int op_index)
{
    if (path.empty()) return;
    std::ofstream o(path);
    char pb[8];
    std::snprintf(pb, sizeof pb, "C%02d", g_prop);
    o << "property " << pb << "\nconfig " << the_config().name << "\ncode " << code << "\n# " << msg << "\n# found by libFuzzer; failing op index " << op_index << "\n" << to_text(p);
}

extern "C" int LLVMFuzzerTestOneInput(const uint8_t* data, size_t size)
{
    const Program p = decode(data, size);
    if (p.ops.empty()) return 0;
    char pc[16];
    std::snprintf(pc, sizeof pc, "C%02d.crash", g_prop);
    if (!g_dump.empty()) write_replay_file(g_dump, p, pc, "decoded from a libFuzzer artifact (the process died while executing it)", -1);
    ++g_execs;
    Stats st;
    Verdict v = the_config().run(g_prop, p, st, g_guards);  // resets ledger and registry at the top of every run
    g_stats_acc.ops_executed += st.ops_executed;
    g_stats_acc.guarded += st.guarded;
    if (!v.ok)
    {
        write_replay_file(g_replay_out, p, v.code, v.msg, v.op_index);
        std::fprintf(stderr, "FUZZ-FAIL code=%s msg=%s\n", v.code.c_str(), v.msg.c_str());
        write_stats();
        __builtin_trap();
    }
    if (st.nontrivial)
    {
        if (g_nontrivial.insert(hash_program(p, 7)).second && g_samples.size() < 3 && p.ops.size() <= 16) g_samples.push_back(to_line(p));
    }
    return 0;
}
