// Op-kind weight profiles per property (shared by the rapidcheck and libFuzzer engines).
#pragma once
#include "common.hpp"

#include <utility>
#include <vector>

namespace vf
{
struct Profile
{
    std::vector<std::pair<unsigned, uint8_t>> w;  // (weight, kind)
    unsigned first_new_percent{85};               // probability that a program starts with NEW
};

// C17: operations whose allocations are failed one by one
inline std::vector<std::pair<unsigned, uint8_t>> fault_targets(unsigned caps)
{
    std::vector<std::pair<unsigned, uint8_t>> t;
    const bool copy = (caps & CAP_COPY) && (caps & CAP_COPYASSIGN);
    t.push_back({3, K_NEW});
    t.push_back({5, K_RESERVE});
    t.push_back({4, K_MOVEASSIGN});
    t.push_back({3, K_ELEM_FROM_REF});
    t.push_back({2, K_ELEM_MOVEASSIGN});
    t.push_back({1, K_ELEM_MOVE});
    if (copy)
    {
        t.push_back({4, K_COPYCTOR});
        t.push_back({4, K_COPYASSIGN});
        t.push_back({2, K_ELEM_COPY});
        t.push_back({3, K_ELEM_COPYASSIGN});
    }
    return t;
}

inline Profile profile_for(int prop, unsigned caps)
{
    Profile p;
    auto add = [&](uint8_t k, unsigned w) { p.w.push_back({w, k}); };
    const bool copy = (caps & CAP_COPY) && (caps & CAP_COPYASSIGN);
    const bool refa = caps & CAP_REFASSIGN;
    auto history = [&](unsigned scale)
    {
        add(K_EMPLACE, 10 * scale);
        add(K_FILL, 3 * scale);
        add(K_POP, 3 * scale);
        add(K_ERASE1, 5 * scale);
        add(K_ERASE, 4 * scale);
        add(K_CLEAR, 1 * scale);
        add(K_RESERVE, 4 * scale);
        add(K_NEW, 2 * scale);
        add(K_DEFAULT, 1);  // a default-constructed vector (no block, no address table) is a start state for every property
    };
    auto copies = [&](unsigned scale)
    {
        if (copy)
        {
            add(K_COPYCTOR, 3 * scale);
            add(K_COPYASSIGN, 3 * scale);
        }
        add(K_MOVECTOR, 3 * scale);
        add(K_MOVEASSIGN, 3 * scale);
        add(K_SWAP, 2 * scale);
    };
    auto elems = [&](unsigned scale)
    {
        add(K_ELEM_FROM_REF, 4 * scale);
        if (copy)
        {
            add(K_ELEM_COPY, 2 * scale);
            add(K_ELEM_COPYASSIGN, 3 * scale);
        }
        add(K_ELEM_MOVE, 2 * scale);
        add(K_ELEM_MOVEASSIGN, 3 * scale);
        add(K_ELEM_SWAP, 2 * scale);
        add(K_ELEM_DESTROY, 1 * scale);
    };
    switch (prop)
    {
        case 1: history(2); break;
        case 2:
            history(2);
            add(K_FILL, 10);
            copies(1);  // "no operation reads or writes outside the block": copy/move/assignment re-use or re-create blocks too
            break;
        case 3:
        case 4:
        case 5:
            history(2);
            copies(1);
            elems(1);
            add(K_WRITE, 2);
            break;
        case 6:
            history(2);
            copies(2);
            elems(1);
            add(K_DESTROY, 2);
            if (refa)
            {
                add(K_REFASSIGN, 2);
                add(K_REFSWAP, 2);
            }
            break;
        case 7:
        case 8:
            history(1);
            copies(3);
            elems(2);
            add(K_DESTROY, 2);
            add(K_DEFAULT, 1);
            break;
        case 9:
            history(1);
            copies(4);
            add(K_SELFASSIGN, 2);
            add(K_SELFSWAP, 1);
            add(K_WRITE, 3);
            add(K_DEFAULT, 1);
            add(K_DESTROY, 1);
            break;
        case 10:
            history(1);
            add(K_RESERVE, 14);
            // reserve on a moved-from vector (no precondition) and on one revived by clear()
            add(K_MOVECTOR, 2);
            add(K_MOVEASSIGN, 2);
            break;
        case 11:
            history(1);
            add(K_WRITE, 8);
            add(K_ITERMATH, 4);
            if (refa)
            {
                add(K_REFASSIGN, 8);
                add(K_REFSWAP, 5);
                add(K_ITERSWAP, 4);
                add(K_ROTATE, 4);
                add(K_REVERSE, 3);
                add(K_SWAPRANGES, 3);
            }
            break;
        case 12:
            history(1);
            elems(4);
            add(K_ELEM_WRITE, 5);
            add(K_WRITE, 4);
            if (refa)
            {
                add(K_ELEM_TO_REF, 4);
                add(K_REF_TO_ELEM, 4);
            }
            break;
        case 13:
        case 14:
            add(K_NEW, 3);
            add(K_EMPLACE, 8);
            add(K_FILL, 3);
            add(K_CLONE_JUNK, 6);
            add(K_MUTATE1, 4);
            add(K_POP, 2);
            add(K_ERASE1, 2);
            add(K_COMPARE, 10);
            add(K_COMPARE_ELEM, 8);
            add(K_ELEM_FROM_REF, 4);
            add(K_RESERVE, 1);
            break;
        case 17:  // prefix of a fault-injection case; the target op is appended by the engine
            history(2);
            copies(1);
            elems(1);
            add(K_DESTROY, 1);
            break;
        case 16:
            history(2);
            add(K_SWAP, 3);
            add(K_MOVECTOR, 3);
            break;
        case 18:
            add(K_NEW, 6);
            add(K_DEFAULT, 3);
            add(K_EMPLACE, 5);
            add(K_FILL, 1);
            add(K_POP, 5);
            add(K_ERASE1, 4);
            add(K_ERASE, 6);
            add(K_CLEAR, 6);
            add(K_RESERVE, 5);
            copies(1);
            add(K_COMPARE, 3);
            add(K_DESTROY, 2);
            break;
        default: history(1); break;
    }
    return p;
}
}  // namespace vf
