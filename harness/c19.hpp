// C19: read-only use from several threads is race-free. Built with -fsanitize=thread; std::allocator only (the
// harness must not contain locks or shared mutable state of its own that could hide or fake races).
#pragma once
#include "meta.hpp"

#include <atomic>
#include <string>
#include <optional>
#include <thread>
#include <vector>

namespace c19
{
using vf::FIXED;
using vf::PLAIN;
using vf::VARYING;

struct Plan
{
    uint32_t seed{};
    std::vector<std::vector<uint8_t>> threads;  // op codes per thread
};

inline std::string to_text(const Plan& p)
{
    std::string s = "seed " + std::to_string(p.seed) + "\n";
    for (auto& t : p.threads)
    {
        s += "thread";
        for (auto o : t) s += " " + std::to_string(o);
        s += "\n";
    }
    return s;
}

enum OpCode : uint8_t
{
    O_QUERIES = 0,
    O_READ_ALL,
    O_FRONT_BACK,
    O_ITERATE,
    O_COMPARE_VECTORS,
    O_COMPARE_REFS,
    O_COPY_VECTOR,
    O_ELEMENT_FROM_REF,
    O_PRIVATE_MUTATE,
    O_SHARED_ELEMENT,
    O_ASSIGN_FROM_SHARED,  // thread-private objects are assigned FROM the shared const vector / element
    O_SHARED_REFERENCE,    // a const-qualified object of the MUTABLE reference type is shared: reads, element construction from it
    O_EMPLACE_FROM_SHARED, // a private vector gets an element built from the fields (get<I>) of the shared const element / reference
    O_COUNT_
};

// Allocator whose state is NOT thread safe (a plain counter behind a pointer), but whose
// select_on_container_copy_construction hands out an allocator without shared state - like a pmr allocator over an
// unsynchronised resource, whose copies fall back to the (thread safe) default resource. Copying a shared container
// concurrently is race free exactly if the copy goes through select_on_container_copy_construction.
template <class T>
struct RacyAlloc
{
    using value_type = T;
    using propagate_on_container_copy_assignment = std::false_type;
    using propagate_on_container_move_assignment = std::false_type;
    using propagate_on_container_swap = std::false_type;
    using is_always_equal = std::false_type;
    template <class U>
    struct rebind
    {
        using other = RacyAlloc<U>;
    };
    long* counter{nullptr};
    RacyAlloc() = default;
    explicit RacyAlloc(long* c) noexcept : counter(c) {}
    template <class U>
    RacyAlloc(const RacyAlloc<U>& o) noexcept : counter(o.counter)
    {
    }
    T* allocate(std::size_t n)
    {
        if (counter) ++*counter;  // unsynchronised on purpose
        return std::allocator<T>{}.allocate(n);
    }
    void deallocate(T* p, std::size_t n) noexcept
    {
        if (counter) ++*counter;
        std::allocator<T>{}.deallocate(p, n);
    }
    RacyAlloc select_on_container_copy_construction() const noexcept { return RacyAlloc(nullptr); }
    template <class U>
    friend bool operator==(const RacyAlloc& a, const RacyAlloc<U>& b) noexcept
    {
        return a.counter == b.counter;
    }
    template <class U>
    friend bool operator!=(const RacyAlloc& a, const RacyAlloc<U>& b) noexcept
    {
        return a.counter != b.counter;
    }
};
inline long g_shared_allocator_state = 0;

template <class Vec, class = void>
struct MakeAlloc
{
    static typename Vec::allocator_type shared() { return typename Vec::allocator_type{}; }
};
template <class Vec>
struct MakeAlloc<Vec, std::void_t<decltype(std::declval<typename Vec::allocator_type>().counter)>>
{
    static typename Vec::allocator_type shared() { return typename Vec::allocator_type(&g_shared_allocator_state); }
};

struct Entry
{
    const char* name;
    const char* descr;
    bool copyable;
    // returns "" if all threads computed the precomputed digests, otherwise a message
    std::string (*run)(const Plan&, uint64_t& nontrivial_flag);
};
Entry& the_entry();

inline uint64_t mix(uint64_t h, uint64_t x) { return vf::mix64(h ^ x); }

template <class LI_, class Vec_>
struct Runner
{
    using LI = LI_;
    using Vec = Vec_;
    using Elem = typename Vec::value_type;
    static constexpr std::size_t N = LI::N;
    static constexpr std::size_t NF = LI::NF;
    static constexpr std::size_t NV = LI::NV;
    using Idx = std::make_index_sequence<N>;

    template <std::size_t I>
    static auto make_arg(uint32_t seed, std::size_t elem, const std::array<std::size_t, (NF ? NF : 1)>& fixed, std::size_t& next_len)
    {
        using T = typename LI::template T<I>;
        if constexpr (LI::kinds[I] == PLAIN)
        {
            if constexpr (LI::is_count(I))
            {
                next_len = (seed / 7 + elem * 3 + I) % 4;
                return static_cast<T>(next_len);
            }
            else
                return vf::Val<T>::make(static_cast<int64_t>((seed + elem * 5 + I) % 200));
        }
        else
        {
            std::size_t n = LI::kinds[I] == FIXED ? fixed[LI::fixed_index(I)] : next_len;
            std::vector<T> v;
            v.reserve(n + 1);
            for (std::size_t j = 0; j < n; ++j) v.push_back(vf::Val<T>::make(static_cast<int64_t>((seed + elem * 5 + I * 3 + j) % 200)));
            return v;
        }
    }
    template <std::size_t I, class Tup>
    static decltype(auto) pass(Tup& t)
    {
        return std::move(std::get<I>(t));
    }
    template <std::size_t... I>
    static void emplace(Vec& v, uint32_t seed, std::size_t elem, const std::array<std::size_t, (NF ? NF : 1)>& fixed, std::index_sequence<I...>)
    {
        std::size_t next_len = 0;
        // braces guarantee left-to-right evaluation: the count parameter is made before its span
        auto args = std::tuple<decltype(make_arg<I>(seed, elem, fixed, next_len))...>{make_arg<I>(seed, elem, fixed, next_len)...};
        v.emplace_back(pass<I>(args)...);
    }

    static Vec build(uint32_t seed, std::size_t n, std::size_t cap, uint32_t fixed_seed, bool shared_state = false)
    {
        const typename Vec::allocator_type alloc = shared_state ? MakeAlloc<Vec>::shared() : typename Vec::allocator_type{};
        std::array<std::size_t, (NF ? NF : 1)> fixed{};
        for (std::size_t i = 0; i < NF; ++i) fixed[i] = (fixed_seed >> (2 * i)) % 3 + (i == 0 ? 1 : 0);
        auto make = [&]
        {
            if constexpr (NV > 0 && NF > 0)
            {
                std::array<std::size_t, NF> fs;
                for (std::size_t i = 0; i < NF; ++i) fs[i] = fixed[i];
                return Vec(cap, cap * 4 * 64, fs, alloc);
            }
            else if constexpr (NV > 0)
                return Vec(cap, cap * 4 * 64, alloc);
            else if constexpr (NF > 0)
            {
                std::array<std::size_t, NF> fs;
                for (std::size_t i = 0; i < NF; ++i) fs[i] = fixed[i];
                return Vec(cap, fs, alloc);
            }
            else
                return Vec(cap, alloc);
        };
        Vec v = make();
        for (std::size_t e = 0; e < n; ++e) emplace(v, seed, e, fixed, Idx{});
        return v;
    }

    template <std::size_t I, class R>
    static uint64_t digest_field(const R& ref, uint64_t h)
    {
        using T = typename LI::template T<I>;
        if constexpr (LI::kinds[I] == PLAIN)
            return mix(h, static_cast<uint64_t>(vf::Val<T>::key(cntgs::get<I>(ref))));
        else
        {
            for (auto& x : cntgs::get<I>(ref)) h = mix(h, static_cast<uint64_t>(vf::Val<T>::key(x)));
            return mix(h, 77);
        }
    }
    template <class R, std::size_t... I>
    static uint64_t digest_ref(const R& ref, uint64_t h, std::index_sequence<I...>)
    {
        ((h = digest_field<I>(ref, h)), ...);
        return h;
    }
    static uint64_t digest_vec(const Vec& v, uint64_t h)
    {
        for (std::size_t i = 0; i < v.size(); ++i) h = digest_ref(v[i], h, Idx{});
        return mix(h, v.size());
    }

    struct Shared
    {
        Vec a, b;
        Elem elem;
        uint32_t seed;
        std::optional<typename Vec::reference> ref{};  // bound to a[0] before the threads start (if a is not empty)
    };
    template <std::size_t... I, class Source>
    static void emplace_fields_of(Vec& p, const Source& src, std::index_sequence<I...>)
    {
        p.emplace_back(cntgs::get<I>(src)...);
    }

    // one const operation on the shared state; must not write anything shared
    static uint64_t do_op(uint8_t op, const Shared& sh, uint64_t salt)
    {
        const Vec& a = sh.a;
        const Vec& b = sh.b;
        uint64_t h = salt;
        switch (op % O_COUNT_)
        {
            case O_QUERIES:
                h = mix(h, a.size());
                h = mix(h, a.capacity());
                h = mix(h, a.empty());
                h = mix(h, static_cast<uint64_t>(a.data_end() - a.data_begin()));
                h = mix(h, a.memory_consumption());
                h = mix(h, b.size() + b.capacity());
                if constexpr (NF > 0) h = mix(h, a.template get_fixed_size<0>());
                (void)a.get_allocator();
                break;
            case O_READ_ALL:
                h = digest_vec(a, h);
                h = digest_vec(b, h);
                break;
            case O_FRONT_BACK:
                if (!a.empty())
                {
                    h = digest_ref(a.front(), h, Idx{});
                    h = digest_ref(a.back(), h, Idx{});
                }
                break;
            case O_ITERATE:
            {
                for (auto it = a.begin(); it != a.end(); ++it) h = digest_ref(*it, h, Idx{});
                auto it = a.begin();
                const auto n = static_cast<std::ptrdiff_t>(a.size());
                if (n > 1)
                {
                    it += n - 1;
                    h = digest_ref(it[0], h, Idx{});
                    h = mix(h, static_cast<uint64_t>(a.end() - it));
                    h = mix(h, (a.cbegin() < it) ? 1 : 0);
                    h = mix(h, static_cast<uint64_t>(it->data_end() - it->data_begin()));
                }
                for (auto&& r : b) h = digest_ref(r, h, Idx{});
                break;
            }
            case O_COMPARE_VECTORS:
                h = mix(h, (a == b) ? 1 : 0);
                h = mix(h, (a != b) ? 1 : 0);
                h = mix(h, (a < b) ? 1 : 0);
                h = mix(h, (b <= a) ? 1 : 0);
                h = mix(h, (a == a) ? 1 : 0);
                break;
            case O_COMPARE_REFS:
                for (std::size_t i = 0; i + 1 < a.size(); ++i)
                {
                    h = mix(h, (a[i] == a[i + 1]) ? 1 : 0);
                    h = mix(h, (a[i] < a[i + 1]) ? 1 : 0);
                }
                if (!a.empty() && !b.empty()) h = mix(h, (a[0] == b[0]) ? 1 : 0);
                break;
            case O_COPY_VECTOR:
                if constexpr (LI::ALL_COPYABLE)
                {
                    Vec c(a);
                    h = digest_vec(c, h);
                    Vec d(b);
                    h = mix(h, (d == b) ? 1 : 0);
                }
                else
                    h = digest_vec(a, h);
                break;
            case O_ELEMENT_FROM_REF:
                if constexpr (LI::ALL_COPYABLE)
                {
                    if (!a.empty())
                    {
                        Elem e(a[a.size() / 2]);
                        h = digest_ref(e, h, Idx{});
                        h = mix(h, (e == a[a.size() / 2]) ? 1 : 0);
                        h = mix(h, (a[0] < e) ? 1 : 0);
                    }
                }
                else
                    h = mix(h, a.size());
                break;
            case O_PRIVATE_MUTATE:
            {
                // a thread-private vector: copied from the shared one when the list is copyable, otherwise rebuilt
                auto mutate = [&](Vec& p)
                {
                    if (!p.empty()) p.pop_back();
                    if (p.size() > 1) p.erase(p.begin());
                    if constexpr (NV > 0)
                        p.reserve(p.capacity() + 2, 4096);
                    else
                        p.reserve(p.capacity() + 2);
                    h = digest_vec(p, h);
                    p.clear();
                };
                if constexpr (LI::ALL_COPYABLE)
                {
                    Vec p(a);
                    mutate(p);
                }
                else
                {
                    Vec p = build(sh.seed, a.size(), a.capacity(), sh.seed);
                    mutate(p);
                }
                break;
            }
            case O_SHARED_ELEMENT:
            {
                const Elem& e = sh.elem;
                h = digest_ref(e, h, Idx{});
                if (!a.empty())
                {
                    h = mix(h, (e == a[0]) ? 1 : 0);
                    h = mix(h, (a[0] == e) ? 1 : 0);
                    h = mix(h, (e < a[0]) ? 1 : 0);
                }
                if constexpr (LI::ALL_COPYABLE)
                {
                    Elem c(e);
                    h = mix(h, (c == e) ? 1 : 0);
                }
                break;
            }
            case O_SHARED_REFERENCE:
                if (sh.ref)
                {
                    const typename Vec::reference& r = *sh.ref;  // const-qualified object of the mutable reference type
                    h = digest_ref(r, h, Idx{});
                    h = mix(h, r.size_in_bytes());
                    if constexpr (LI::ALL_COPYABLE)
                    {
                        Elem e(r);  // a const lvalue reference object is copied from, never moved from
                        h = digest_ref(e, h, Idx{});
                        h = mix(h, (e == r) ? 1 : 0);
                        typename Vec::const_reference cr(r);
                        Elem e2(cr);
                        h = mix(h, (e2 == e) ? 1 : 0);
                    }
                }
                else
                    h = mix(h, 5);
                break;
            case O_EMPLACE_FROM_SHARED:
                if constexpr (LI::ALL_COPYABLE)
                {
                    // all shared objects were built with the same fixed sizes (fixed_seed == sh.seed)
                    Vec p = build(sh.seed, 0, 2, sh.seed);
                    emplace_fields_of(p, sh.elem, Idx{});
                    h = digest_ref(p[0], h, Idx{});
                    h = mix(h, (p[0] == sh.elem) ? 1 : 0);
                    if (!a.empty())
                    {
                        emplace_fields_of(p, a[a.size() - 1], Idx{});
                        h = digest_ref(p[1], h, Idx{});
                    }
                }
                else
                    h = mix(h, 6);
                break;
            case O_ASSIGN_FROM_SHARED:
                if constexpr (LI::ALL_COPYABLE && LI::ALL_COPY_ASSIGNABLE)
                {
                    // private element and private vector, assigned from the shared const element / const references
                    Elem mine(sh.elem);
                    mine = sh.elem;
                    h = digest_ref(mine, h, Idx{});
                    {
                        // private vectors (their allocators share no state with the shared vectors') are copy-assigned
                        // from the shared const vectors: into a copy of the other vector (larger or smaller block) and
                        // into a default-constructed one
                        Vec q(b);
                        q = a;
                        h = digest_vec(q, h);
                        Vec r;
                        r = b;
                        h = mix(h, (r == b) ? 1 : 0);
                        q = r;
                        h = mix(h, q.size());
                    }
                    if (!a.empty())
                    {
                        Elem other(a[0]);
                        other = sh.elem;
                        h = mix(h, (other == sh.elem) ? 1 : 0);
                        if constexpr (LI::REF_ASSIGNABLE)
                        {
                            Vec p(a);
                            // reference assignment needs equal field sizes (D7): all-fixed lists built with the same
                            // fixed sizes qualify
                            if (NV == 0 && p[0].size_in_bytes() == typename Vec::const_reference(sh.elem).size_in_bytes())
                            {
                                p[0] = sh.elem;  // reference = const element
                                h = digest_ref(p[0], h, Idx{});
                            }
                            if (p.size() > 1 && p[1].size_in_bytes() == a[0].size_in_bytes() && NV == 0)
                            {
                                p[1] = a[0];  // reference = const_reference of the shared vector
                                h = digest_ref(p[1], h, Idx{});
                            }
                        }
                    }
                }
                else
                    h = mix(h, a.size());
                break;
        }
        return h;
    }

    static std::string run(const Plan& plan, uint64_t& nontrivial)
    {
        const std::size_t n = plan.seed % 6;
        const std::size_t cap = n + (plan.seed / 6) % 3;
        Vec a = build(plan.seed, n, cap, plan.seed, true);
        Vec b = build((plan.seed & 1) ? plan.seed : plan.seed + 1, (plan.seed / 18) % 5, 5, plan.seed, true);
        Vec donor = build(plan.seed + 3, 2, 2, plan.seed);
        Shared sh{std::move(a), std::move(b), Elem(std::move(donor[1])), plan.seed};
        if (!sh.a.empty()) sh.ref.emplace(sh.a[0]);
        const std::size_t T = plan.threads.size();
        // expected digests, computed before any thread exists
        std::vector<uint64_t> expected(T), got(T);
        for (std::size_t t = 0; t < T; ++t)
        {
            uint64_t h = t;
            for (auto op : plan.threads[t]) h = do_op(op, sh, h);
            expected[t] = h;
        }
        std::atomic<std::size_t> ready{0};
        std::atomic<bool> go{false};
        std::vector<std::thread> ths;
        const Shared& csh = sh;
        for (std::size_t t = 0; t < T; ++t)
            ths.emplace_back(
                [&, t]
                {
                    ready.fetch_add(1);
                    while (!go.load(std::memory_order_acquire))
                    {
                    }
                    uint64_t h = t;
                    for (auto op : plan.threads[t]) h = do_op(op, csh, h);
                    got[t] = h;
                });
        while (ready.load() != T)
        {
        }
        go.store(true, std::memory_order_release);
        for (auto& th : ths) th.join();
        // non-trivial: >= 2 threads run overlapping op kinds and at least one copies the vector / builds an element
        unsigned kinds_seen[O_COUNT_]{};
        bool copier = false;
        for (auto& t : plan.threads)
        {
            bool mine[O_COUNT_]{};
            for (auto op : t) mine[op % O_COUNT_] = true;
            for (int k = 0; k < O_COUNT_; ++k) kinds_seen[k] += mine[k];
            if (mine[O_COPY_VECTOR] || mine[O_ELEMENT_FROM_REF] || mine[O_PRIVATE_MUTATE] || mine[O_ASSIGN_FROM_SHARED] || mine[O_SHARED_REFERENCE] || mine[O_EMPLACE_FROM_SHARED]) copier = true;
        }
        bool overlap = false;
        for (int k = 0; k < O_COUNT_; ++k) overlap = overlap || kinds_seen[k] >= 2;
        nontrivial = (overlap && copier && T >= 2) ? 1 : 0;
        for (std::size_t t = 0; t < T; ++t)
            if (got[t] != expected[t]) return "thread " + std::to_string(t) + " computed different results than the single-threaded precomputation";
        return "";
    }
};
}  // namespace c19
