// C15: emplace_back stores T(source item) whatever form the source takes.
// A cell = (stored type, source value type, source form, parameter kind). Keys are small ints generated at run time.
#pragma once
#include <cntgs/contiguous.hpp>

#include <algorithm>
#include <array>
#include <cstdint>
#include <cstdio>
#include <cstring>
#include <deque>
#include <iterator>
#include <list>
#include <string>
#include <type_traits>
#include <vector>

namespace c15
{
// ---------------------------------------------------------------------------------------------------------------
// value types
// ---------------------------------------------------------------------------------------------------------------
// unscoped enums convert implicitly to their underlying type (scoped enums are not constructible from/to integers)
enum UE8 : uint8_t
{
    UE8_ZERO = 0,
    UE8_MAX = 255
};
enum UE32 : uint32_t
{
    UE32_ZERO = 0,
    UE32_MAX = 0xffffffffu
};

// trivially copyable class with a converting constructor from an equal-sized integer
struct FromInt
{
    int32_t v;
    FromInt() = default;
    /*implicit*/ FromInt(int32_t x) : v(x * 2 + 1) {}
    friend bool operator==(const FromInt& a, const FromInt& b) { return a.v == b.v; }
};
static_assert(std::is_trivially_copyable_v<FromInt> && sizeof(FromInt) == sizeof(int32_t));

// trivially copyable class with a conversion operator to the stored type
struct ToInt
{
    int32_t v;
    operator int32_t() const { return v + 7; }
};
static_assert(std::is_trivially_copyable_v<ToInt> && sizeof(ToInt) == sizeof(int32_t));

// trivially copyable class whose conversion to the stored type tells how the source item was passed: as a non-const
// lvalue, as a const lvalue or as an rvalue. The stored value must be T(source item) for the item as the source form
// yields it: ranges and iterators over mutable lvalues yield S&, const ranges / const_iterators / pointers to const
// yield const S&, rvalue ranges, move_iterators and ranges that generate their items yield S&&.
struct RefQual
{
    int32_t v;
    operator int32_t() & { return v + 507; }
    operator int32_t() const& { return v + 7; }
    operator int32_t() && { return v + 1007; }
};
static_assert(std::is_trivially_copyable_v<RefQual> && sizeof(RefQual) == sizeof(int32_t));

// pointer conversion that adjusts the address: Derived* -> second base*
struct Base1
{
    int64_t a{1};
};
struct Base2
{
    int64_t b{2};
};
struct Derived : Base1, Base2
{
};
inline Derived g_derived_pool[16];

// counts how often each object was copied / moved from
struct Counted
{
    int key{0};
    mutable int copied_from{0};
    int moved_from{0};
    Counted() = default;
    explicit Counted(int k) : key(k) {}
    Counted(const Counted& o) : key(o.key) { ++o.copied_from; }
    Counted(Counted&& o) noexcept : key(o.key) { ++o.moved_from; }
    Counted& operator=(const Counted& o)
    {
        key = o.key;
        ++o.copied_from;
        return *this;
    }
    Counted& operator=(Counted&& o) noexcept
    {
        key = o.key;
        ++o.moved_from;
        return *this;
    }
    friend bool operator==(const Counted& a, const Counted& b) { return a.key == b.key; }
};

struct MoveOnly
{
    int key{0};
    int moved_from{0};
    mutable int copied_from{0};
    MoveOnly() = default;
    explicit MoveOnly(int k) : key(k) {}
    MoveOnly(const MoveOnly&) = delete;
    MoveOnly& operator=(const MoveOnly&) = delete;
    MoveOnly(MoveOnly&& o) noexcept : key(o.key) { ++o.moved_from; }
    MoveOnly& operator=(MoveOnly&& o) noexcept
    {
        key = o.key;
        ++o.moved_from;
        return *this;
    }
    friend bool operator==(const MoveOnly& a, const MoveOnly& b) { return a.key == b.key; }
};

// string literals as const char*
inline const char* literal(int k)
{
    static const char* lits[] = {"", "a", "bb", "a considerably longer string that does not fit the small buffer", "ccc", "dddd", "e", "ff"};
    return lits[(k % 8 + 8) % 8];
}

template <class S>
S make_src(int k)
{
    if constexpr (std::is_same_v<S, const char*>)
        return literal(k);
    else if constexpr (std::is_same_v<S, std::string>)
        return std::string(literal(k)) + std::to_string(k);
    else if constexpr (std::is_same_v<S, ToInt>)
        return ToInt{k};
    else if constexpr (std::is_same_v<S, RefQual>)
        return RefQual{k};
    else if constexpr (std::is_same_v<S, Derived*>)
        return (k % 5 == 0) ? nullptr : &g_derived_pool[k % 16];
    else if constexpr (std::is_same_v<S, Counted>)
        return Counted(k);
    else if constexpr (std::is_same_v<S, MoveOnly>)
        return MoveOnly(k);
    else if constexpr (std::is_same_v<S, bool>)
        return (k & 1) != 0;
    else if constexpr (std::is_same_v<S, float> || std::is_same_v<S, double>)
        return static_cast<S>(k) + ((k % 3 == 0) ? S(0) : S(0.5));  // non-integral floats make float->int conversion visible
    else
        return static_cast<S>(k);
}

// expected stored value, computed independently per item: T(source item)
template <class T, class S>
T convert(const S& s)
{
    return static_cast<T>(s);
}

template <class T>
std::string show(const T& v)
{
    if constexpr (std::is_same_v<T, std::string>)
        return "\"" + v + "\"";
    else if constexpr (std::is_same_v<T, FromInt>)
        return "FromInt{" + std::to_string(v.v) + "}";
    else if constexpr (std::is_same_v<T, Counted> || std::is_same_v<T, MoveOnly>)
        return "{" + std::to_string(v.key) + "}";
    else if constexpr (std::is_enum_v<T>)
        return std::to_string(static_cast<long long>(v));
    else if constexpr (std::is_pointer_v<T>)
    {
        char buf[32];
        std::snprintf(buf, sizeof buf, "%p", static_cast<const void*>(v));
        return buf;
    }
    else if constexpr (std::is_same_v<T, bool>)
    {
        unsigned char raw;
        std::memcpy(&raw, &v, 1);
        return raw == 0 ? "false" : (raw == 1 ? "true" : "bool(raw " + std::to_string(raw) + ")");
    }
    else
        return std::to_string(v);
}

template <class T>
bool same(const T& a, const T& b)
{
    if constexpr (std::is_same_v<T, bool>)
    {
        unsigned char ra, rb;
        std::memcpy(&ra, &a, 1);
        std::memcpy(&rb, &b, 1);
        return ra == rb;  // a bool must be stored as 0 or 1, exactly like T(source)
    }
    else
        return a == b;
}

// ---------------------------------------------------------------------------------------------------------------
// source forms
// ---------------------------------------------------------------------------------------------------------------
// lazily generated forward range (C++17): yields make_src<S>(keys[i]) by value
template <class S>
struct LazyRange
{
    const std::vector<int>* keys;
    struct iterator
    {
        using iterator_category = std::forward_iterator_tag;
        using value_type = S;
        using difference_type = std::ptrdiff_t;
        using pointer = const S*;
        using reference = S;
        const std::vector<int>* keys{};
        std::size_t i{};
        S operator*() const { return make_src<S>((*keys)[i]); }
        iterator& operator++()
        {
            ++i;
            return *this;
        }
        iterator operator++(int)
        {
            auto c = *this;
            ++i;
            return c;
        }
        bool operator==(const iterator& o) const { return i == o.i; }
        bool operator!=(const iterator& o) const { return i != o.i; }
    };
    iterator begin() const { return {keys, 0}; }
    iterator end() const { return {keys, keys->size()}; }
};

// input iterator that counts how many items were consumed
template <class S>
struct CountingIterator
{
    using iterator_category = std::input_iterator_tag;
    using value_type = S;
    using difference_type = std::ptrdiff_t;
    using pointer = const S*;
    using reference = const S&;
    const std::vector<S>* src{};
    std::size_t i{};
    std::size_t* derefs{};
    std::size_t* increments{};
    const S& operator*() const
    {
        ++*derefs;
        return (*src)[i];
    }
    CountingIterator& operator++()
    {
        ++*increments;
        ++i;
        return *this;
    }
    CountingIterator operator++(int)
    {
        auto c = *this;
        ++*this;
        return c;
    }
    bool operator==(const CountingIterator& o) const { return i == o.i; }
    bool operator!=(const CountingIterator& o) const { return i != o.i; }
};

enum Form
{
    F_VECTOR_LVALUE,
    F_VECTOR_CONST_LVALUE,
    F_VECTOR_RVALUE,
    F_LIST_LVALUE,
    F_LIST_RVALUE,
    F_DEQUE_LVALUE,
    F_ARRAY_LVALUE,   // std::array<S, 4>: length fixed to 4
    F_CARRAY_LVALUE,  // S[4]
    F_LAZY_RANGE,
    F_POINTER,           // iterator forms: FixedSize only
    F_VECTOR_ITERATOR,
    F_VECTOR_CONST_ITERATOR,
    F_LIST_ITERATOR,
    F_DEQUE_ITERATOR,
    F_COUNTING_ITERATOR,
    F_MOVE_ITERATOR_VECTOR,
    F_MOVE_ITERATOR_POINTER,
    F_MOVE_ITERATOR_LIST,
    F_REVERSE_ITERATOR,  // std::reverse_iterator<vector::iterator>: random access, lvalue reference, but not contiguous in memory order
    F_DEQUE_CONST_ITERATOR,
    F_COUNT_
};

inline const char* form_name(int f)
{
    static const char* n[] = {"vector&", "const vector&", "vector&&", "list&", "list&&", "deque&", "std::array&", "C array", "lazy generated range",
                              "pointer", "vector::iterator", "vector::const_iterator", "list::iterator", "deque::iterator", "counting input iterator",
                              "move_iterator<vector::iterator>", "move_iterator<pointer>", "move_iterator<list::iterator>", "reverse_iterator<vector::iterator>", "deque::const_iterator"};
    return n[f];
}
constexpr bool is_iterator_form(int f) { return f >= F_POINTER; }
constexpr bool is_moving_form(int f)
{
    return f == F_VECTOR_RVALUE || f == F_LIST_RVALUE || f == F_MOVE_ITERATOR_VECTOR || f == F_MOVE_ITERATOR_POINTER || f == F_MOVE_ITERATOR_LIST;
}
constexpr bool fixed_length_form(int f) { return f == F_ARRAY_LVALUE || f == F_CARRAY_LVALUE; }

struct Outcome
{
    bool ok{true};
    std::string msg;
    bool nontrivial{false};
};

template <class T, class S>
inline constexpr bool has_move_counter = std::is_same_v<S, Counted> || std::is_same_v<S, MoveOnly>;

template <class T, bool Varying>
struct VecOf;
template <class T>
struct VecOf<T, false>
{
    using type = cntgs::ContiguousVector<cntgs::FixedSize<T>>;
    static type make(std::size_t n) { return type{2, {n}}; }
    template <class Arg>
    static void emplace(type& v, std::size_t, Arg&& a)
    {
        v.emplace_back(std::forward<Arg>(a));
    }
    static auto stored(type& v, std::size_t e) { return cntgs::get<0>(v[e]); }
};
template <class T>
struct VecOf<T, true>
{
    using type = cntgs::ContiguousVector<uint32_t, cntgs::VaryingSize<T>>;
    static type make(std::size_t n) { return type{2, 2 * n * sizeof(T)}; }
    template <class Arg>
    static void emplace(type& v, std::size_t n, Arg&& a)
    {
        v.emplace_back(static_cast<uint32_t>(n), std::forward<Arg>(a));
    }
    static auto stored(type& v, std::size_t e) { return cntgs::get<1>(v[e]); }
};

// Runs one cell on the given keys. Two elements are emplaced (the same source twice for non-moving forms) so that the
// second element's placement depends on the first one's end.
template <class T, class S, int F, bool Varying>
Outcome run_cell(std::vector<int> keys)
{
    Outcome out;
    if constexpr (fixed_length_form(F)) keys.resize(4, 3);
    const std::size_t n = keys.size();
    std::vector<S> src;
    src.reserve(n + 1);
    for (int k : keys) src.push_back(make_src<S>(k));
    // expected values, computed before the call, one conversion per item
    std::deque<T> expected;  // (not std::vector: T may be bool)
    for (std::size_t i = 0; i < n; ++i)
    {
        if constexpr (std::is_same_v<S, MoveOnly>)
            expected.push_back(T(keys[i]));
        else if constexpr (std::is_same_v<S, RefQual>)
        {
            constexpr bool as_rvalue = is_moving_form(F) || F == F_LAZY_RANGE;
            constexpr bool as_const = F == F_VECTOR_CONST_LVALUE || F == F_POINTER || F == F_VECTOR_CONST_ITERATOR || F == F_DEQUE_CONST_ITERATOR || F == F_COUNTING_ITERATOR;
            expected.push_back(static_cast<T>(src[i].v + (as_rvalue ? 1007 : as_const ? 7 : 507)));
        }
        else
            expected.push_back(convert<T, S>(src[i]));
    }
    if constexpr (F == F_REVERSE_ITERATOR) std::reverse(expected.begin(), expected.end());
    if constexpr (has_move_counter<T, S>)
        for (auto& s : src)
        {
            s.copied_from = 0;
            s.moved_from = 0;
        }
    using VO = VecOf<T, Varying>;
    auto v = VO::make(n);
    std::size_t derefs = 0, increments = 0;
    std::list<S> lst;
    std::deque<S> deq;
    std::array<S, 4> arr{};
    S carr[4]{};
    if constexpr (F == F_LIST_LVALUE || F == F_LIST_RVALUE || F == F_LIST_ITERATOR || F == F_MOVE_ITERATOR_LIST)
    {
        if constexpr (std::is_copy_constructible_v<S>)
            lst.assign(src.begin(), src.end());
        else
            for (auto& s : src) lst.push_back(std::move(s));
        if constexpr (has_move_counter<T, S>)
            for (auto& s : lst)
            {
                s.copied_from = 0;
                s.moved_from = 0;
            }
    }
    if constexpr (F == F_DEQUE_LVALUE || F == F_DEQUE_ITERATOR || F == F_DEQUE_CONST_ITERATOR)
    {
        // start the range two items in front of the end of a deque chunk (512 bytes in libstdc++), so that a source
        // of three or more items is not contiguous in memory
        const std::size_t per_chunk = sizeof(S) <= 256 ? 512 / sizeof(S) : 1;
        const std::size_t dummies = per_chunk > 2 ? per_chunk - 2 : 0;
        for (std::size_t i = 0; i < dummies; ++i) deq.push_back(make_src<S>(0));
        for (auto&& s : src) deq.push_back(s);
        for (std::size_t i = 0; i < dummies; ++i) deq.pop_front();
        if constexpr (has_move_counter<T, S>)
            for (auto& s : src)
            {
                s.copied_from = 0;
                s.moved_from = 0;
            }
    }
    if constexpr (F == F_ARRAY_LVALUE)
        for (std::size_t i = 0; i < 4; ++i) arr[i] = src[i];
    if constexpr (F == F_CARRAY_LVALUE)
        for (std::size_t i = 0; i < 4; ++i) carr[i] = src[i];
    std::vector<S> before;
    if constexpr (std::is_copy_constructible_v<S>) before = src;
    if constexpr (has_move_counter<T, S>)
        for (auto& s : src)
        {
            s.copied_from = 0;
            s.moved_from = 0;
        }

    if constexpr (std::is_same_v<S, RefQual> && F == F_DEQUE_CONST_ITERATOR)
    {
        // libstdc++'s own std::uninitialized_copy_n reads the items of a deque::const_iterator through non-const
        // pointers (its segmented copy for trivial targets): "T(source item)" is what the standard algorithm stores
        std::vector<T> reference(n);
        std::uninitialized_copy_n(deq.cbegin(), n, reference.data());
        for (std::size_t i = 0; i < n; ++i) expected[i] = reference[i];
    }

    // --- the call under test -------------------------------------------------------------------------------
    if constexpr (F == F_VECTOR_LVALUE)
        VO::emplace(v, n, src);
    else if constexpr (F == F_VECTOR_CONST_LVALUE)
        VO::emplace(v, n, static_cast<const std::vector<S>&>(src));
    else if constexpr (F == F_VECTOR_RVALUE)
        VO::emplace(v, n, std::move(src));
    else if constexpr (F == F_LIST_LVALUE)
        VO::emplace(v, n, lst);
    else if constexpr (F == F_LIST_RVALUE)
        VO::emplace(v, n, std::move(lst));
    else if constexpr (F == F_DEQUE_LVALUE)
        VO::emplace(v, n, deq);
    else if constexpr (F == F_ARRAY_LVALUE)
        VO::emplace(v, n, arr);
    else if constexpr (F == F_CARRAY_LVALUE)
        VO::emplace(v, n, carr);
    else if constexpr (F == F_LAZY_RANGE)
        VO::emplace(v, n, LazyRange<S>{&keys});
    else if constexpr (F == F_POINTER)
        VO::emplace(v, n, static_cast<const S*>(src.data()));
    else if constexpr (F == F_VECTOR_ITERATOR)
        VO::emplace(v, n, src.begin());
    else if constexpr (F == F_VECTOR_CONST_ITERATOR)
        VO::emplace(v, n, src.cbegin());
    else if constexpr (F == F_LIST_ITERATOR)
        VO::emplace(v, n, lst.begin());
    else if constexpr (F == F_DEQUE_ITERATOR)
        VO::emplace(v, n, deq.begin());
    else if constexpr (F == F_COUNTING_ITERATOR)
        VO::emplace(v, n, CountingIterator<S>{&src, 0, &derefs, &increments});
    else if constexpr (F == F_MOVE_ITERATOR_VECTOR)
        VO::emplace(v, n, std::make_move_iterator(src.begin()));
    else if constexpr (F == F_MOVE_ITERATOR_POINTER)
        VO::emplace(v, n, std::make_move_iterator(src.data()));
    else if constexpr (F == F_MOVE_ITERATOR_LIST)
        VO::emplace(v, n, std::make_move_iterator(lst.begin()));
    else if constexpr (F == F_REVERSE_ITERATOR)
        VO::emplace(v, n, src.rbegin());
    else if constexpr (F == F_DEQUE_CONST_ITERATOR)
        VO::emplace(v, n, deq.cbegin());
    // ---------------------------------------------------------------------------------------------------------

    auto fail = [&](const std::string& m)
    {
        if (out.ok)
        {
            out.ok = false;
            out.msg = m;
        }
    };
    auto sp = VO::stored(v, 0);
    if (sp.size() != n) fail("stored span has " + std::to_string(sp.size()) + " objects, expected " + std::to_string(n));
    for (std::size_t i = 0; i < n && out.ok; ++i)
        if (!same<T>(sp[i], expected[i])) fail("item " + std::to_string(i) + ": stored " + show<T>(sp[i]) + ", T(source item) is " + show<T>(expected[i]));
    if (v.size() != 1) fail("size() != 1 after one emplace_back");
    // state of the source afterwards
    if constexpr (!is_moving_form(F) && std::is_copy_constructible_v<S> && F != F_LAZY_RANGE)
    {
        if constexpr (!has_move_counter<T, S>)
        {
            if constexpr (F == F_LIST_LVALUE || F == F_LIST_ITERATOR)
            {
                std::size_t i = 0;
                for (auto& s : lst)
                {
                    if constexpr (std::is_same_v<S, RefQual>)
                    {
                        if (s.v != keys[i]) fail("lvalue list source item " + std::to_string(i) + " was modified");
                    }
                    else if (!(convert<T, S>(s) == expected[i]) && !std::is_same_v<T, bool>)
                        fail("lvalue list source item " + std::to_string(i) + " was modified");
                    ++i;
                }
            }
            else if constexpr (F == F_VECTOR_LVALUE || F == F_VECTOR_CONST_LVALUE || F == F_POINTER || F == F_VECTOR_ITERATOR || F == F_VECTOR_CONST_ITERATOR || F == F_COUNTING_ITERATOR)
            {
                if (src.size() != n) fail("lvalue source changed its length");
                for (std::size_t i = 0; i < n && out.ok; ++i)
                {
                    bool same_item = true;
                    if constexpr (std::is_arithmetic_v<S> || std::is_enum_v<S> || std::is_pointer_v<S>)
                        same_item = src[i] == before[i];
                    else if constexpr (std::is_same_v<S, ToInt> || std::is_same_v<S, RefQual>)
                        same_item = src[i].v == before[i].v;
                    if (!same_item) fail("lvalue source item " + std::to_string(i) + " was modified");
                }
                if constexpr (std::is_same_v<S, std::string>)
                    if (src != before) fail("lvalue source strings were modified");
            }
        }
        else
        {
            auto check_src = [&](auto& container)
            {
                std::size_t i = 0;
                for (auto& s : container)
                {
                    if (s.moved_from != 0) fail("lvalue source item " + std::to_string(i) + " was moved from");
                    if (s.copied_from != 1) fail("lvalue source item " + std::to_string(i) + " was copied " + std::to_string(s.copied_from) + " times, expected exactly once");
                    if (s.key != keys[i]) fail("lvalue source item " + std::to_string(i) + " changed value");
                    ++i;
                }
            };
            if constexpr (F == F_LIST_LVALUE || F == F_LIST_ITERATOR)
                check_src(lst);
            else if constexpr (F == F_DEQUE_LVALUE || F == F_DEQUE_ITERATOR || F == F_DEQUE_CONST_ITERATOR)
                check_src(deq);
            else if constexpr (F == F_ARRAY_LVALUE)
                check_src(arr);
            else if constexpr (F == F_CARRAY_LVALUE)
                check_src(carr);
            else
                check_src(src);
        }
    }
    if constexpr (is_moving_form(F) && has_move_counter<T, S>)
    {
        auto check_moved = [&](auto& container)
        {
            std::size_t i = 0;
            for (auto& s : container)
            {
                if (s.moved_from != 1) fail("rvalue source item " + std::to_string(i) + " was moved from " + std::to_string(s.moved_from) + " times, expected exactly once");
                if constexpr (std::is_same_v<S, Counted>)
                    if (s.copied_from != 0) fail("rvalue source item " + std::to_string(i) + " was copied instead of moved");
                ++i;
            }
            if (i != n) fail("rvalue source container changed its length");
        };
        if constexpr (F == F_LIST_RVALUE || F == F_MOVE_ITERATOR_LIST)
            check_moved(lst);
        else
            check_moved(src);
    }
    if constexpr (F == F_COUNTING_ITERATOR)
    {
        if (derefs != n) fail("the input iterator was dereferenced " + std::to_string(derefs) + " times for a parameter of " + std::to_string(n) + " objects");
        if (increments > n) fail("the input iterator was incremented " + std::to_string(increments) + " times for a parameter of " + std::to_string(n) + " objects");
    }
    out.nontrivial = !std::is_same_v<T, S> && sizeof(T) == sizeof(S) && n >= 2;
    return out;
}

struct Cell
{
    const char* stored;
    const char* source;
    int form;
    bool varying;
    Outcome (*run)(std::vector<int>);
    bool memcpy_selectable;  // sizeof equal and both trivially copyable: the fast path can be chosen
};

std::vector<Cell>& cells();
struct Reg
{
    Reg(Cell c) { cells().push_back(c); }
};
}  // namespace c15
