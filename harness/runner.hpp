// Interpreter + monitors for one configuration (parameter list x allocator kind).
// Interpretation is total: every Program is turned into a valid API usage (operands are repaired, never rejected).
#pragma once
#include "meta.hpp"

#include <algorithm>
#include <list>
#include <optional>
#include <set>
#include <string>
#include <vector>

namespace vf
{
struct MElem
{
    std::vector<std::vector<int64_t>> f;
    bool operator==(const MElem& o) const { return f == o.f; }
};

inline std::string show(const MElem& e)
{
    std::string s = "(";
    for (std::size_t i = 0; i < e.f.size(); ++i)
    {
        if (i) s += ", ";
        s += "[";
        for (std::size_t j = 0; j < e.f[i].size(); ++j)
        {
            if (j) s += " ";
            s += e.f[i][j] == WILD ? std::string("*") : std::to_string(e.f[i][j]);
        }
        s += "]";
    }
    return s + ")";
}

// model equality with wildcards
inline bool matches(const MElem& actual, const MElem& model)
{
    if (actual.f.size() != model.f.size()) return false;
    for (std::size_t i = 0; i < model.f.size(); ++i)
    {
        if (actual.f[i].size() != model.f[i].size()) return false;
        for (std::size_t j = 0; j < model.f[i].size(); ++j)
            if (model.f[i][j] != WILD && actual.f[i][j] != model.f[i][j]) return false;
    }
    return true;
}

struct Extent
{
    std::uintptr_t begin;
    std::size_t count;
    std::size_t tsize;
    std::uintptr_t end() const { return begin + count * tsize; }
};

inline std::uintptr_t align_up(std::uintptr_t p, std::size_t a) { return (p + a - 1) / a * a; }

template <class Cfg>
class Runner
{
  public:
    using LI = typename Cfg::LI;
    using K = typename Cfg::K;
    using Alloc = LedgerAlloc<std::byte, K>;
    using Vec = typename Cfg::template VecT<Alloc>;
    using VAlloc = typename Vec::allocator_type;
    using Elem = typename Vec::value_type;
    using Ref = typename Vec::reference;
    using CRef = typename Vec::const_reference;
    static constexpr std::size_t N = LI::N;
    static constexpr std::size_t NF = LI::NF;
    static constexpr std::size_t NV = LI::NV;
    static constexpr std::size_t AMAX = LI::AMAX;
    static constexpr int NSLOT = 3;
    using Idx = std::make_index_sequence<N>;

    struct MVec
    {
        bool alive{false};
        bool moved_from{false};
        std::vector<MElem> el;
        std::size_t cap{0};
        std::size_t budget{0};
        bool budget_known{true};  // false after copy / element-wise move: only what is stored is known to fit
        bool exact{true};         // the data block was sized for exactly this capacity (construction / reserve)
        bool unspecified{false};  // C17: an assignment into this vector threw: valid but unspecified contents
        bool has_table{true};     // owns an element address table (VaryingSize lists); a default-constructed vector has none
        std::array<std::size_t, (NF ? NF : 1)> fixed{};
        int arena{0};
    };

    struct VSlot
    {
        Vec* v{nullptr};  // heap object with manual lifetime: after a failure nothing is destroyed (state may be corrupt)
        MVec m;
    };

    struct Snap
    {
        bool alive{false};
        std::uintptr_t data_begin{};
        std::uintptr_t cdata_begin{};  // data_begin() through a const vector, also for empty vectors
        std::size_t cap{}, size{}, memcons{};
        std::vector<std::vector<Extent>> ext;
        std::vector<MElem> values;
        std::array<std::size_t, (NF ? NF : 1)> fixed{};
    };

    int prop;
    const Program& prog;
    Stats& st;
    unsigned guards;
    Verdict verdict;
    VSlot vs[NSLOT];
    int cur_op{-1};

    // per-case label flags
    bool had_shrink_op{false};       // erase/pop/clear happened on a vector holding elements of unequal byte extent
    bool nt_flag{false};
    std::size_t relocations{0};      // elements relocated so far in this case
    bool realloc_on_varying{false};
    std::set<int> arenas_used;
    unsigned effective_reserves{0};
    unsigned stable_checks{0};
    bool erase_middle_seen{false};
    bool emptied_by_history{false};
    bool moved_from_reused{false};
    bool emplace_after_empty{false};

    Runner(int p, const Program& pr, Stats& s, unsigned g) : prop(p), prog(pr), st(s), guards(g) {}

    // -----------------------------------------------------------------------------------------------------------
    // failure plumbing
    // -----------------------------------------------------------------------------------------------------------
    bool bad() const { return !verdict.ok; }
    static bool code_in(const std::string& code, std::initializer_list<const char*> set)
    {
        for (auto* c : set)
            if (code == c) return true;
        return false;
    }
    bool outside_view(const std::string& code) const
    {
        if (prop != 17) return false;
        if (guards & G_VIEW_LIFETIMES)
            return !code_in(code, {"block_freed_with_live_objects", "construct_on_live_object", "destroy_of_dead_object", "object_bytes_clobbered",
                                   "use_of_dead_object", "object_never_destroyed", "live_object_not_held", "held_object_not_alive"});
        if (guards & G_VIEW_LEDGER)
            return !code_in(code, {"dealloc_unknown_pointer", "dealloc_wrong_arena", "dealloc_wrong_size", "dealloc_wrong_type", "block_never_returned"});
        if (guards & G_VIEW_RESERVE) return prog.ops.empty() || prog.ops.back().kind != K_RESERVE;
        return false;
    }
    void fail(const std::string& code, const std::string& msg)
    {
        if (!verdict.ok) return;
        if (outside_view(code)) return;
        verdict.ok = false;
        char pbuf[8];
        std::snprintf(pbuf, sizeof pbuf, "C%02d.", prop);
        verdict.code = std::string(pbuf) + code;
        verdict.msg = msg;
        verdict.op_index = cur_op;
    }
#define VF_REQUIRE(cond, code, msg)                    \
    do                                                 \
    {                                                  \
        ++st.checks;                                   \
        if (!(cond))                                   \
        {                                              \
            fail(code, std::string(msg));              \
            return;                                    \
        }                                              \
    } while (0)

    // -----------------------------------------------------------------------------------------------------------
    // reading elements through the API
    // -----------------------------------------------------------------------------------------------------------
    template <std::size_t I, class R>
    static void read_field(const R& ref, MElem& out)
    {
        using T = typename LI::template T<I>;
        if constexpr (LI::kinds[I] == PLAIN)
        {
            out.f[I] = {Val<T>::key(cntgs::get<I>(ref))};
        }
        else
        {
            auto sp = cntgs::get<I>(ref);
            out.f[I].clear();
            for (auto& x : sp) out.f[I].push_back(Val<T>::key(x));
        }
    }
    template <class R, std::size_t... I>
    static MElem read_ref_impl(const R& ref, std::index_sequence<I...>)
    {
        MElem e;
        e.f.resize(N);
        (read_field<I>(ref, e), ...);
        return e;
    }
    template <class R>
    static MElem read_ref(const R& ref)
    {
        return read_ref_impl(ref, Idx{});
    }

    template <std::size_t I, class Tup>
    static void read_tuple_field(const Tup& t, MElem& out)
    {
        using T = typename LI::template T<I>;
        if constexpr (LI::kinds[I] == PLAIN)
            out.f[I] = {Val<T>::key(std::get<I>(t))};
        else
        {
            out.f[I].clear();
            for (auto& x : std::get<I>(t)) out.f[I].push_back(Val<T>::key(x));
        }
    }
    template <class Tup, std::size_t... I>
    static MElem read_tuple_impl(const Tup& t, std::index_sequence<I...>)
    {
        MElem e;
        e.f.resize(N);
        (read_tuple_field<I>(t, e), ...);
        return e;
    }

    template <std::size_t I, class R>
    static void extent_field(const R& ref, std::vector<Extent>& out)
    {
        using T = typename LI::template T<I>;
        if constexpr (LI::kinds[I] == PLAIN)
            out.push_back({reinterpret_cast<std::uintptr_t>(std::addressof(cntgs::get<I>(ref))), 1, sizeof(T)});
        else
        {
            auto sp = cntgs::get<I>(ref);
            out.push_back({reinterpret_cast<std::uintptr_t>(sp.data()), sp.size(), sizeof(T)});
        }
    }
    template <class R, std::size_t... I>
    static std::vector<Extent> extents_impl(const R& ref, std::index_sequence<I...>)
    {
        std::vector<Extent> e;
        e.reserve(N);
        (extent_field<I>(ref, e), ...);
        return e;
    }
    template <class R>
    static std::vector<Extent> extents(const R& ref)
    {
        return extents_impl(ref, Idx{});
    }

    // -----------------------------------------------------------------------------------------------------------
    // model helpers
    // -----------------------------------------------------------------------------------------------------------
    static std::size_t payload_of(const MElem& e)
    {
        std::size_t b = 0;
        for (std::size_t i = 0; i < N; ++i)
            if (LI::kinds[i] == VARYING) b += e.f[i].size() * LI::sizes[i];
        return b;
    }
    static std::size_t payload_of(const MVec& m)
    {
        std::size_t b = 0;
        for (auto& e : m.el) b += payload_of(e);
        return b;
    }
    // byte extent proxy of an element (sum of object bytes; padding ignored): used for labels only
    static std::size_t bytes_of(const MElem& e)
    {
        std::size_t b = 0;
        for (std::size_t i = 0; i < N; ++i) b += e.f[i].size() * LI::sizes[i];
        return b;
    }
    static bool unequal_extents(const MVec& m)
    {
        for (std::size_t i = 1; i < m.el.size(); ++i)
            if (bytes_of(m.el[i]) != bytes_of(m.el[0])) return true;
        return false;
    }

    static int64_t gen_key(uint32_t content, std::size_t field, std::size_t j, bool small_dom)
    {
        const uint64_t dom = small_dom ? 3 : 250;
        // one element in four is "flat": every object has the same value, so that elements whose fields split the same
        // number of objects differently (other fixed sizes / span lengths) have identical byte images
        if (content % 4 == 3) return static_cast<int64_t>((content / 4) % (small_dom ? 2 : 4) + 1);
        return static_cast<int64_t>((uint64_t(content) * 7 + field * 13 + j * 3) % dom);
    }

    // lens[k] for the k-th varying parameter
    static const std::size_t* len_table()
    {
        static const std::size_t t[16] = {0, 1, 2, 3, 5, 8, 1, 2, 3, 4, 0, 6, 7, 1, 2, 3};
        return t;
    }

    template <std::size_t I>
    static int64_t norm_at(int64_t k)
    {
        return norm_key<typename LI::template T<I>>(k);
    }
    template <std::size_t... I>
    static int64_t norm_dispatch(std::size_t field, int64_t k, std::index_sequence<I...>)
    {
        int64_t r = k;
        ((field == I ? (void)(r = norm_at<I>(k)) : (void)0), ...);
        return r;
    }
    static int64_t norm(std::size_t field, int64_t k) { return norm_dispatch(field, k, Idx{}); }

    // build the model element for an emplace: content seed, sizes seed, against the remaining budget
    MElem make_model_elem(const MVec& m, uint32_t content, uint32_t sizes_seed, bool small_dom, std::size_t remaining,
                          bool take_all_remaining = false)
    {
        MElem e;
        e.f.resize(N);
        std::size_t rem = remaining;
        // first decide varying lengths
        std::array<std::size_t, (NV ? NV : 1)> lens{};
        std::size_t vi = 0;
        std::size_t nvary_left = NV;
        for (std::size_t i = 0; i < N; ++i)
        {
            if (LI::kinds[i] != VARYING) continue;
            std::size_t want = len_table()[(sizes_seed >> (4 * vi)) & 15];
            const std::size_t ts = LI::sizes[i];
            // count type limit
            const std::size_t count_max = count_type_max(i - 1);
            if (take_all_remaining && nvary_left == 1) want = rem / ts;
            if (want > count_max) want = count_max;
            if (want * ts > rem)
            {
                want = rem / ts;
                ++st.ops_repaired;
            }
            rem -= want * ts;
            lens[vi++] = want;
            --nvary_left;
        }
        vi = 0;
        for (std::size_t i = 0; i < N; ++i)
        {
            std::size_t n = 1;
            if (LI::kinds[i] == FIXED) n = m.fixed[LI::fixed_index(i)];
            if (LI::kinds[i] == VARYING) n = lens[vi++];
            e.f[i].resize(n);
            for (std::size_t j = 0; j < n; ++j) e.f[i][j] = norm(i, gen_key(content, i, j, small_dom));
        }
        // count fields hold the length of the following span
        for (std::size_t i = 0; i + 1 < N; ++i)
            if (LI::is_count(i)) e.f[i][0] = static_cast<int64_t>(e.f[i + 1].size());
        return e;
    }

    template <std::size_t... I>
    static std::size_t count_type_max_impl(std::size_t field, std::index_sequence<I...>)
    {
        std::size_t r = 200;
        ((field == I ? (void)(r = count_max_of<typename LI::template T<I>>()) : (void)0), ...);
        return r;
    }
    template <class T>
    static std::size_t count_max_of()
    {
        if constexpr (std::is_integral_v<T>)
            return sizeof(T) == 1 ? (std::is_signed_v<T> ? 127 : 200) : 200;
        else
            return 200;
    }
    static std::size_t count_type_max(std::size_t field) { return count_type_max_impl(field, Idx{}); }

    // -----------------------------------------------------------------------------------------------------------
    // emplace: build arguments from a model element
    // -----------------------------------------------------------------------------------------------------------
    template <std::size_t I>
    static auto make_arg(const MElem& e)
    {
        using T = typename LI::template T<I>;
        if constexpr (LI::kinds[I] == PLAIN)
            return Val<T>::make(e.f[I][0]);
        else
        {
            std::vector<T> v;
            v.reserve(e.f[I].size() + 1);
            for (auto k : e.f[I]) v.push_back(Val<T>::make(k));
            return v;
        }
    }

    template <int Form, std::size_t I, class Tup>
    static decltype(auto) pass_arg(Tup& t)
    {
        auto& a = std::get<I>(t);
        if constexpr (LI::kinds[I] == PLAIN)
            return std::move(a);
        else if constexpr (Form == 0)
            return std::move(a);  // rvalue range
        else if constexpr (Form == 1)
            return static_cast<const std::decay_t<decltype(a)>&>(a);  // const lvalue range
        else if constexpr (Form == 2)
        {
            if constexpr (LI::kinds[I] == FIXED)
                return std::make_move_iterator(a.begin());
            else
                return std::move(a);
        }
        else
        {
            if constexpr (LI::kinds[I] == FIXED)
                return a.cbegin();
            else
                return static_cast<std::decay_t<decltype(a)>&>(a);  // mutable lvalue range
        }
    }

    template <int Form, std::size_t... I>
    static void emplace_form(Vec& v, const MElem& e, std::index_sequence<I...>)
    {
        auto args = std::tuple<decltype(make_arg<I>(e))...>{make_arg<I>(e)...};
        v.emplace_back(pass_arg<Form, I>(args)...);
    }

    // Converting contiguous sources: the span of one FixedSize/VaryingSize field of arithmetic type T is supplied as a
    // std::vector<U> (range, pointer or vector iterator) of another arithmetic type U that represents every value
    // exactly, so the stored objects must be T(u) == the model value. K selects U: 0 = same size but other category
    // (integer <-> floating point, or the other signedness for 1- and 2-byte integers: the only pairs for which a byte
    // copy is the conversion), 1 = wider, 2 = narrower.
    template <class U>
    struct type_tag
    {
        using type = U;
    };
    template <class T, int K>
    static constexpr auto alt_source_tag()
    {
        if constexpr (!std::is_arithmetic_v<T>)
            return type_tag<void>{};
        else if constexpr (std::is_same_v<T, bool>)
            return type_tag<uint8_t>{};  // bool(u) for u in {0, 1, 2, 128, 255}: a byte copy would store an invalid bool
        else if constexpr (std::is_integral_v<T>)
        {
            if constexpr (K == 0)
            {
                if constexpr (sizeof(T) == 4)
                    return type_tag<float>{};
                else if constexpr (sizeof(T) == 8)
                    return type_tag<double>{};
                else if constexpr (sizeof(T) == 2)
                    return type_tag<std::conditional_t<std::is_signed_v<T>, uint16_t, int16_t>>{};
                else
                    return type_tag<std::conditional_t<std::is_signed_v<T>, uint8_t, int8_t>>{};
            }
            else if constexpr (K == 1)
                return type_tag<std::conditional_t<(sizeof(T) < 8), int64_t, uint16_t>>{};
            else
                return type_tag<std::conditional_t<(sizeof(T) > 1), uint8_t, int32_t>>{};
        }
        else
        {
            if constexpr (K == 0)
                return type_tag<std::conditional_t<sizeof(T) == 4, int32_t, int64_t>>{};
            else if constexpr (K == 1)
                return type_tag<std::conditional_t<sizeof(T) == 4, double, float>>{};
            else
                return type_tag<int16_t>{};
        }
    }
    template <class U>
    static bool key_fits(int64_t k)
    {
        if constexpr (std::is_floating_point_v<U>)
            return k > -(int64_t(1) << 24) && k < (int64_t(1) << 24);
        else if constexpr (std::is_signed_v<U>)
            return k >= static_cast<int64_t>(std::numeric_limits<U>::min()) && k <= static_cast<int64_t>(std::numeric_limits<U>::max());
        else
            return k >= 0 && static_cast<uint64_t>(k) <= static_cast<uint64_t>(std::numeric_limits<U>::max());
    }
    template <std::size_t J, std::size_t I, int Pass, class Tup, class Alt>
    static decltype(auto) pick_converting(Tup& t, Alt& alt)
    {
        if constexpr (I != J)
            return pass_arg<0, I>(t);
        else if constexpr (Pass == 0 || LI::kinds[J] != FIXED)
            return static_cast<const Alt&>(alt);  // lvalue range
        else if constexpr (Pass == 1)
            return static_cast<const typename Alt::value_type*>(alt.data());  // pointer
        else
            return alt.cbegin();  // vector iterator
    }
    template <std::size_t J, int K, std::size_t... I>
    bool emplace_converting_at(Vec& v, const MElem& e, std::index_sequence<I...>)
    {
        if constexpr (J >= N)
            return false;
        else
        {
            using T = typename LI::template T<J>;
            using U = typename decltype(alt_source_tag<T, K>())::type;
            if constexpr (std::is_void_v<U> || LI::kinds[J] == PLAIN)
                return false;
            else
            {
                for (auto k : e.f[J])
                    if (!key_fits<U>(k)) return false;
                std::vector<U> alt;
                alt.reserve(e.f[J].size() + 1);
                if constexpr (std::is_same_v<T, bool>)
                {
                    static const uint8_t truths[4] = {1, 2, 255, 128};
                    for (std::size_t j = 0; j < e.f[J].size(); ++j) alt.push_back(e.f[J][j] ? truths[j % 4] : uint8_t{0});
                }
                else
                    for (auto k : e.f[J]) alt.push_back(static_cast<U>(k));
                auto args = std::tuple<decltype(make_arg<I>(e))...>{make_arg<I>(e)...};
                v.emplace_back(pick_converting<J, I, K, decltype(args), std::vector<U>>(args, alt)...);
                st.label(sizeof(U) == sizeof(T) ? "emplace_converting_same_size" : "emplace_converting_other_size");
                return true;
            }
        }
    }
    // first and last range field of arithmetic type
    static constexpr std::size_t first_convertible()
    {
        for (std::size_t i = 0; i < N; ++i)
            if (LI::kinds[i] != PLAIN && LI::convertible[i]) return i;
        return N;
    }
    static constexpr std::size_t last_convertible()
    {
        for (std::size_t i = N; i-- > 0;)
            if (LI::kinds[i] != PLAIN && LI::convertible[i]) return i;
        return N;
    }
    bool emplace_converting(Vec& v, const MElem& e, unsigned which)
    {
        constexpr std::size_t F = first_convertible();
        constexpr std::size_t L = last_convertible();
        switch (which & 3)
        {
            case 0: return emplace_converting_at<F, 0>(v, e, Idx{});
            case 1: return emplace_converting_at<F, 1>(v, e, Idx{});
            case 2: return emplace_converting_at<F, 2>(v, e, Idx{});
            default: return emplace_converting_at<(L != F ? L : N), 0>(v, e, Idx{});
        }
    }

    void do_emplace_model(Vec& v, const MElem& e, unsigned form)
    {
        if ((form & 0x80) && emplace_converting(v, e, form >> 8)) return;
        form &= 3;
        if constexpr (!LI::ALL_COPYABLE)
        {
            if (form == 1) form = 0;
            if (form == 3) form = 2;
        }
        switch (form)
        {
            case 0: emplace_form<0>(v, e, Idx{}); break;
            case 2: emplace_form<2>(v, e, Idx{}); break;
            case 1:
                if constexpr (LI::ALL_COPYABLE) emplace_form<1>(v, e, Idx{});
                break;
            case 3:
                if constexpr (LI::ALL_COPYABLE) emplace_form<3>(v, e, Idx{});
                break;
        }
    }

    // -----------------------------------------------------------------------------------------------------------
    // slot helpers
    // -----------------------------------------------------------------------------------------------------------
    void destroy_slot(int s)
    {
        if (vs[s].m.alive)
        {
            delete vs[s].v;
            vs[s].v = nullptr;
            vs[s].m = MVec{};
        }
    }

    void construct_slot(int s, std::size_t cap, std::size_t budget, const std::array<std::size_t, (NF ? NF : 1)>& fixed,
                        int arena)
    {
        destroy_slot(s);
        VAlloc al(arena);
        if constexpr (NV == 0) budget = 0;
        if constexpr (NV > 0 && NF > 0)
        {
            std::array<std::size_t, NF> fs;
            for (std::size_t i = 0; i < NF; ++i) fs[i] = fixed[i];
            vs[s].v = new Vec(cap, budget, fs, al);
        }
        else if constexpr (NV > 0)
            vs[s].v = new Vec(cap, budget, al);
        else if constexpr (NF > 0)
        {
            std::array<std::size_t, NF> fs;
            for (std::size_t i = 0; i < NF; ++i) fs[i] = fixed[i];
            vs[s].v = new Vec(cap, fs, al);
        }
        else
            vs[s].v = new Vec(cap, al);
        MVec& m = vs[s].m;
        m = MVec{};
        m.alive = true;
        m.cap = cap;
        m.budget = budget;
        m.fixed = fixed;
        m.arena = arena;
    }

    std::array<std::size_t, (NF ? NF : 1)> fixed_from(uint32_t d)
    {
        std::array<std::size_t, (NF ? NF : 1)> f{};
        for (std::size_t i = 0; i < NF; ++i) f[i] = ((d >> (3 * i)) & 7) % 5;
        // D16: elements of zero bytes (a list of FixedSize parameters only, all with size 0) are outside the domain
        // (exception: the comparison properties C13 / C14 only emplace, pop, erase and compare such vectors, which the
        // library handles; there, vectors that differ in nothing but the number of their zero-byte elements must differ)
        if constexpr (NF == N && NF > 0)
        {
            bool all_zero = true;
            for (std::size_t i = 0; i < NF; ++i) all_zero = all_zero && f[i] == 0;
            if (prop == 13 && (d & 0xC00) == 0xC00)
                for (std::size_t i = 0; i < NF; ++i) f[i] = 0;  // one construction in four
            else if (all_zero)
                f[0] = 1;
        }
        return f;
    }

    // make sure slot s holds a usable (alive, not moved-from) vector; construct one from the op's fields otherwise
    bool usable(int s) const { return vs[s].m.alive && !vs[s].m.moved_from && !vs[s].m.unspecified; }
    bool readable(int s) const { return vs[s].m.alive && !vs[s].m.moved_from; }
    bool constructed_this_op{false};
    void ensure(int s, const Op& op)
    {
        if (usable(s)) return;
        ++st.ops_repaired;
        constructed_this_op = true;
        construct_slot(s, (op.b % 5) + 1, op.c % 64, fixed_from(op.d), static_cast<int>(op.a / 4 % 3));
    }

    // D16: a list of FixedSize parameters only whose sizes are all 0 has elements of zero bytes
    bool zero_byte_elements(const MVec& m) const
    {
        if (prop == 13) return false;
        if constexpr (NF == N && NF > 0)
        {
            for (std::size_t i = 0; i < NF; ++i)
                if (m.fixed[i] != 0) return false;
            return true;
        }
        else
        {
            (void)m;
            return false;
        }
    }

    std::size_t remaining_budget(const MVec& m) const
    {
        if constexpr (NV == 0) return 0;
        const std::size_t used = payload_of(m);
        return m.budget > used ? m.budget - used : 0;
    }

    // -----------------------------------------------------------------------------------------------------------
    // operations
    // -----------------------------------------------------------------------------------------------------------
    void op_new(const Op& op)
    {
        const int s = op.a % NSLOT;
        const std::size_t cap = op.b % 13;
        const std::size_t budget = op.c % 257;
        construct_slot(s, cap, budget, fixed_from(op.d), static_cast<int>((op.a / 4) % 3));
        if (cap == 0) st.label("new_cap0");
        arenas_used.insert(vs[s].m.arena);
    }

    void op_default(const Op& op)
    {
        const int s = op.a % NSLOT;
        destroy_slot(s);
        vs[s].v = new Vec;  // default-initialisation (not value-initialisation): members must initialise themselves
        MVec& m = vs[s].m;
        m = MVec{};
        m.alive = true;
        m.cap = 0;
        m.budget = 0;
        m.arena = 0;
        m.has_table = false;
        st.label("default_constructed");
    }

    // if the vector cannot take another element, make room the documented way (reserve), as a user would
    bool make_room(int s, std::size_t extra_payload)
    {
        MVec& m = vs[s].m;
        Vec& v = *vs[s].v;
        const bool need_cap = m.el.size() >= m.cap;
        const bool need_budget = NV > 0 && (!m.budget_known || remaining_budget(m) < extra_payload);
        if (!need_cap && !need_budget) return true;
        return false;
    }

    void op_emplace(const Op& op)
    {
        const int s = op.a % NSLOT;
        ensure(s, op);
        MVec& m = vs[s].m;
        Vec& v = *vs[s].v;
        if ((m.el.size() >= m.cap || (NV > 0 && !m.budget_known)) && !zero_byte_elements(m) && (op.d & 0x20) && prop != 16 && prop != 10)
        {
            // a user whose vector is full reserves first (README): repair the op into reserve + emplace_back
            const std::size_t n = m.cap + 1 + (op.c >> 12) % 3;
            const std::size_t b = NV > 0 ? payload_of(m) + 8 + (op.c >> 6) % 40 : 0;
            if constexpr (NV > 0)
                v.reserve(n, b);
            else
                v.reserve(n);
            relocations += m.el.size();
            if (NV > 0) realloc_on_varying = true;
            m.cap = n;
            m.budget = b;
            m.budget_known = true;
            m.exact = true;
            m.has_table = true;
            ++st.ops_repaired;
            st.label("emplace_with_reserve");
        }
        if (m.el.size() >= m.cap || (NV > 0 && !m.budget_known) || zero_byte_elements(m))
        {
            ++st.ops_skipped;
            st.label("emplace_skipped_full");
            return;
        }
        const bool small_dom = (op.d >> 4) & 1;
        uint32_t sizes_seed = op.c;
        MElem e = make_model_elem(m, op.b, sizes_seed, small_dom, remaining_budget(m));
        if (NV > 0 && (op.d & 0x40) && !m.el.empty())
        {
            // "uniform" mode: same span lengths as the last element (if they fit), so that equal-shaped elements
            // - the domain of reference assignment, swap and the permuting algorithms - occur often
            MElem u = e;
            bool fits = true;
            std::size_t need = 0;
            for (std::size_t i = 0; i < N; ++i)
                if (LI::kinds[i] == VARYING) need += m.el.back().f[i].size() * LI::sizes[i];
            fits = need <= remaining_budget(m);
            if (fits)
            {
                for (std::size_t i = 0; i < N; ++i)
                    if (LI::kinds[i] == VARYING)
                    {
                        u.f[i].resize(m.el.back().f[i].size());
                        for (std::size_t j = 0; j < u.f[i].size(); ++j) u.f[i][j] = norm(i, gen_key(op.b, i, j, small_dom));
                        u.f[i - 1][0] = static_cast<int64_t>(u.f[i].size());
                    }
                e = u;
                st.label("emplace_uniform_shape");
            }
        }
        if (had_shrink_op && prop == 1) nt_flag = true;
        if (m.el.empty() && (emptied_by_history || m.cap == 0 || NV > 0) && prop == 18) nt_flag = true;
        do_emplace_model(v, e, op.d);
        m.el.push_back(std::move(e));
    }

    void op_fill(const Op& op)
    {
        const int s = op.a % NSLOT;
        ensure(s, op);
        MVec& m = vs[s].m;
        Vec& v = *vs[s].v;
        if ((NV > 0 && !m.budget_known) || zero_byte_elements(m))
        {
            ++st.ops_skipped;
            return;
        }
        const bool saturate = op.d & 1;
        const bool small_dom = (op.d >> 4) & 1;
        uint32_t i = 0;
        while (m.el.size() < m.cap)
        {
            const bool last = m.el.size() + 1 == m.cap;
            const uint32_t seed = static_cast<uint32_t>(mix64(op.c + i));
            MElem e = make_model_elem(m, op.b + i, seed, small_dom, remaining_budget(m), saturate && last);
            do_emplace_model(v, e, (op.d >> 1));
            m.el.push_back(std::move(e));
            ++i;
        }
        if (m.cap > 0 && (NV == 0 || payload_of(m) == m.budget)) st.label("saturated");
    }

    void note_shrink(const MVec& m)
    {
        if (unequal_extents(m)) had_shrink_op = true;
    }

    void op_pop(const Op& op)
    {
        const int s = op.a % NSLOT;
        if (!usable(s) || vs[s].m.el.empty())
        {
            ++st.ops_skipped;
            return;
        }
        note_shrink(vs[s].m);
        vs[s].v->pop_back();
        vs[s].m.el.pop_back();
        if (vs[s].m.el.empty()) emptied_by_history = true;
    }

    void check_erase_result(int s, const typename Vec::iterator& it, std::size_t first)
    {
        Vec& v = *vs[s].v;
        MVec& m = vs[s].m;
        if (!(prop == 1 || prop == 11)) return;
        VF_REQUIRE(it.index() == first, "erase_return", "erase returned an iterator with index " + std::to_string(it.index()) + ", expected " + std::to_string(first));
        VF_REQUIRE(it == v.begin() + static_cast<std::ptrdiff_t>(first), "erase_return", "erase result != begin()+first");
        if (first < m.el.size())
        {
            MElem a = read_ref(*it);
            VF_REQUIRE(matches(a, m.el[first]), "erase_return", "erase result does not refer to the element that followed the erased ones: got " + show(a) + " expected " + show(m.el[first]));
        }
        else
            VF_REQUIRE(it == v.end(), "erase_return", "erase of the tail did not return end()");
    }

    void op_erase1(const Op& op)
    {
        const int s = op.a % NSLOT;
        if (!usable(s) || vs[s].m.el.empty())
        {
            ++st.ops_skipped;
            return;
        }
        MVec& m = vs[s].m;
        Vec& v = *vs[s].v;
        const std::size_t i = op.b % m.el.size();
        note_shrink(m);
        if (i + 1 < m.el.size())
        {
            st.label("erase_middle");
            relocations += m.el.size() - i - 1;
            if (m.el.size() >= 3) erase_middle_seen = true;
        }
        auto it = (op.c & 1) ? v.erase(v.cbegin() + static_cast<std::ptrdiff_t>(i)) : v.erase(v.begin() + static_cast<std::ptrdiff_t>(i));
        m.el.erase(m.el.begin() + static_cast<std::ptrdiff_t>(i));
        if (m.el.empty()) emptied_by_history = true;
        check_erase_result(s, it, i);
    }

    void op_erase(const Op& op)
    {
        const int s = op.a % NSLOT;
        if (!usable(s))
        {
            ++st.ops_skipped;
            return;
        }
        MVec& m = vs[s].m;
        Vec& v = *vs[s].v;
        const std::size_t n = m.el.size();
        const std::size_t first = op.b % (n + 1);
        std::size_t last = first + op.c % (n - first + 1);
        if (last == first && first < n && ((op.c >> 8) & 3) != 0) last = first + 1 + (op.c >> 10) % (n - first);  // keep ~1/4 of the empty ranges
        if (first == last) st.label("erase_empty_range");
        if (last == n && first < last) st.label("erase_tail");
        if (last < n && first < last)
        {
            relocations += n - last;
            if (n >= 3) erase_middle_seen = true;
        }
        if (first == 0 && last == n && n > 0) st.label("erase_all");
        note_shrink(m);
        auto it = v.erase(v.begin() + static_cast<std::ptrdiff_t>(first), v.begin() + static_cast<std::ptrdiff_t>(last));
        m.el.erase(m.el.begin() + static_cast<std::ptrdiff_t>(first), m.el.begin() + static_cast<std::ptrdiff_t>(last));
        if (m.el.empty() && first < last) emptied_by_history = true;
        check_erase_result(s, it, first);
    }

    void op_clear(const Op& op)
    {
        const int s = op.a % NSLOT;
        if (!vs[s].m.alive)
        {
            ++st.ops_skipped;
            return;
        }
        if (vs[s].m.moved_from) st.label("clear_moved_from");
        note_shrink(vs[s].m);
        if (!vs[s].m.el.empty()) emptied_by_history = true;
        vs[s].v->clear();
        vs[s].m.el.clear();
        if (vs[s].m.moved_from)
        {
            // C09: after clear() a moved-from vector is empty
            VF_REQUIRE(vs[s].v->size() == 0 && vs[s].v->empty(), "moved_from_clear", "moved-from vector not empty after clear()");
            // ... and from then on it is an empty vector like any other (C18: "emptied by clear"): whatever capacity() it
            // reports can be used, reserve / emplace_back / copy / compare are well defined. The byte budget behind that
            // capacity is not known, so VaryingSize lists reserve before they emplace (as after a copy).
            MVec& m = vs[s].m;
            m.moved_from = false;
            m.cap = vs[s].v->capacity();
            m.budget = 0;
            m.budget_known = false;
            m.exact = false;
            moved_from_reused = true;
            st.label("moved_from_revived_by_clear");
            if (prop == 9 || prop == 18) nt_flag = true;
        }
    }

    void op_reserve(const Op& op)
    {
        const int s = op.a % NSLOT;
        if (vs[s].m.alive && vs[s].m.moved_from && !vs[s].m.unspecified && (op.d & 1) && vs[s].v->size() == 0)
        {
            // reserve has no precondition, so it is valid on a moved-from vector as well (C10 / C18: capacity 0, never
            // reduces capacity, does not change size()). The slot stays "moved-from" for the model: clear() revives it.
            Vec& v = *vs[s].v;
            const std::size_t cap0 = v.capacity();
            const std::size_t n = op.b % 7 + 1;
            if constexpr (NV > 0)
                v.reserve(n, op.c % 65);
            else
                v.reserve(n);
            st.label("reserve_on_moved_from");
            if (v.capacity() > cap0) vs[s].m.has_table = true;
            VF_REQUIRE(v.size() == 0 && v.empty(), "reserve_changed_size", "reserve on an empty moved-from vector changed size() to " + std::to_string(v.size()));
            VF_REQUIRE(v.capacity() >= cap0 && v.capacity() >= n, "reserve_capacity",
                       "reserve(" + std::to_string(n) + ") on a moved-from vector with capacity " + std::to_string(cap0) + " left capacity() == " + std::to_string(v.capacity()));
            VF_REQUIRE(v.begin() == v.end() && v.data_begin() == v.data_end(), "empty_vector_range", "moved-from vector after reserve: begin() != end() or data_begin() != data_end()");
            if (prop == 10 || prop == 18) nt_flag = true;
            return;
        }
        ensure(s, op);
        MVec& m = vs[s].m;
        Vec& v = *vs[s].v;
        const std::size_t delta = op.b % 7;  // 0 -> cap-1, 1 -> cap, 2.. -> cap+1..cap+5
        std::size_t n = delta == 0 ? (m.cap > 0 ? m.cap - 1 : 0) : m.cap + delta - 1;
        const std::size_t used = payload_of(m);
        const std::size_t b = NV > 0 ? used + (op.c % 65) : 0;
        const bool partly = !m.el.empty() && m.el.size() < m.cap;
        if (n > m.cap)
        {
            if (partly)
            {
                st.label("reserve_grow_partly_filled");
                nt_flag = true;
            }
            else
                st.label(m.el.empty() ? "reserve_grow_empty" : "reserve_grow_full");
        }
        else
            st.label("reserve_noop");
        if constexpr (NV > 0)
            v.reserve(n, b);
        else
            v.reserve(n);
        if (n > m.cap)
        {
            m.cap = n;
            m.budget = b;
            m.budget_known = true;
            m.exact = true;
            m.has_table = true;
            relocations += m.el.size();
            ++effective_reserves;
            if (effective_reserves >= 2 && prop == 10) nt_flag = true;
            if (NV > 0) realloc_on_varying = true;
        }
    }

    void op_destroy(const Op& op)
    {
        const int s = op.a % NSLOT;
        if (!vs[s].m.alive)
        {
            ++st.ops_skipped;
            return;
        }
        destroy_slot(s);
    }

    // -----------------------------------------------------------------------------------------------------------
    // monitors
    // -----------------------------------------------------------------------------------------------------------
    // A const_iterator that denoted an element of ANOTHER vector (another block, address table, fixed sizes and stride)
    // and is then assigned from a mutable iterator of slot s: the converting assignment must take over everything.
    typename Vec::const_iterator rebound_const_iterator(int s, std::size_t i)
    {
        Vec& v = *vs[s].v;
        for (int t = 0; t < NSLOT; ++t)
            if (t != s && usable(t))
            {
                typename Vec::const_iterator it = static_cast<const Vec&>(*vs[t].v).begin();
                it = v.begin() + static_cast<std::ptrdiff_t>(i);
                st.label("const_iterator_rebound_from_other_vector");
                return it;
            }
        return typename Vec::const_iterator(v.begin() + static_cast<std::ptrdiff_t>(i));
    }

    void monitor_values(int s)
    {
        if (!usable(s)) return;
        Vec& v = *vs[s].v;
        const Vec& cv = v;
        MVec& m = vs[s].m;
        VF_REQUIRE(v.size() == m.el.size(), "size_mismatch", "slot " + std::to_string(s) + ": size()==" + std::to_string(v.size()) + " model " + std::to_string(m.el.size()));
        VF_REQUIRE(v.empty() == m.el.empty(), "empty_mismatch", "empty() disagrees with the model");
        VF_REQUIRE(v.capacity() == m.cap, "capacity_mismatch", "slot " + std::to_string(s) + ": capacity()==" + std::to_string(v.capacity()) + " model " + std::to_string(m.cap));
        if constexpr (NF > 0) check_fixed_sizes(s, std::make_index_sequence<N>{});
        if (bad()) return;
        const std::size_t n = m.el.size();
        for (std::size_t i = 0; i < n; ++i)
        {
            MElem a = read_ref(v[i]);
            VF_REQUIRE(matches(a, m.el[i]), "value_mismatch", "slot " + std::to_string(s) + " v[" + std::to_string(i) + "] = " + show(a) + " model " + show(m.el[i]));
            MElem c = read_ref(cv[i]);
            VF_REQUIRE(matches(c, m.el[i]), "value_mismatch_const", "const v[" + std::to_string(i) + "] = " + show(c) + " model " + show(m.el[i]));
        }
        std::size_t i = 0;
        for (auto&& r : v)
        {
            VF_REQUIRE(i < n, "iteration_too_long", "iteration yields more elements than size()");
            MElem a = read_ref(r);
            VF_REQUIRE(matches(a, m.el[i]), "value_mismatch_iter", "iteration element " + std::to_string(i) + " = " + show(a) + " model " + show(m.el[i]));
            ++i;
        }
        VF_REQUIRE(i == n, "iteration_too_short", "iteration yields fewer elements than size()");
        for (std::size_t k = 0; k < n; k += (n > 2 ? n - 1 : 1))
        {
            const auto rit = rebound_const_iterator(s, k);
            MElem a = read_ref(*rit);
            VF_REQUIRE(matches(a, m.el[k]), "value_mismatch_rebound_iterator", "a const_iterator assigned from begin()+" + std::to_string(k) + " (it denoted another vector before) shows " + show(a) + " model " + show(m.el[k]));
        }
        i = 0;
        for (auto it = cv.begin(); it != cv.end(); ++it, ++i)
        {
            VF_REQUIRE(i < n, "iteration_too_long", "const iteration yields more elements than size()");
            MElem a = read_ref(*it);
            VF_REQUIRE(matches(a, m.el[i]), "value_mismatch_citer", "const iteration element " + std::to_string(i) + " = " + show(a) + " model " + show(m.el[i]));
        }
        if (n > 0)
        {
            MElem f = read_ref(v.front());
            VF_REQUIRE(matches(f, m.el.front()), "value_mismatch_front", "front() = " + show(f) + " model " + show(m.el.front()));
            MElem b = read_ref(v.back());
            VF_REQUIRE(matches(b, m.el.back()), "value_mismatch_back", "back() = " + show(b) + " model " + show(m.el.back()));
            MElem cf = read_ref(cv.front());
            VF_REQUIRE(matches(cf, m.el.front()), "value_mismatch_front", "const front() = " + show(cf));
            MElem cb = read_ref(cv.back());
            VF_REQUIRE(matches(cb, m.el.back()), "value_mismatch_back", "const back() = " + show(cb));
            // structured bindings (generated helper, knows the arity)
            for (std::size_t k = 0; k < n; k += (n > 3 ? n - 1 : 1))
            {
                auto t = Cfg::sb(v[k]);
                MElem sbv = read_tuple_impl(t, Idx{});
                VF_REQUIRE(matches(sbv, m.el[k]), "value_mismatch_binding", "structured binding of v[" + std::to_string(k) + "] = " + show(sbv) + " model " + show(m.el[k]));
            }
        }
    }

    template <std::size_t... I>
    void check_fixed_sizes(int s, std::index_sequence<I...>)
    {
        (check_fixed_size_one<I>(s), ...);
    }
    template <std::size_t I>
    void check_fixed_size_one(int s)
    {
        if constexpr (LI::kinds[I] == FIXED)
        {
            if (bad()) return;
            constexpr std::size_t FI = LI::fixed_index(I);
            const std::size_t got = vs[s].v->template get_fixed_size<FI>();
            VF_REQUIRE(got == vs[s].m.fixed[FI], "fixed_size_mismatch", "get_fixed_size<" + std::to_string(FI) + ">()==" + std::to_string(got) + " model " + std::to_string(vs[s].m.fixed[FI]));
        }
    }

    // C02: everything inside the allocated block
    void monitor_bounds(int s)
    {
        if (!usable(s)) return;
        Vec& v = *vs[s].v;
        MVec& m = vs[s].m;
        ledger().check_all_guards();
        for (auto& e : ledger().errors)
            if (e.code == "guard_zone_overwritten")
            {
                fail(e.code, e.msg);
                return;
            }
        const std::size_t mc = v.memory_consumption();
        if (v.size() == 0) return;
        auto* db = v.data_begin();
        auto* de = v.data_end();
        const Block* blk = ledger().find_containing(db);
        VF_REQUIRE(blk != nullptr, "data_begin_outside_block", "data_begin() of a non-empty vector is not inside any block obtained from the allocator");
        const auto lo = reinterpret_cast<std::uintptr_t>(blk->user);
        const auto hi = lo + blk->bytes;
        VF_REQUIRE(blk->bytes == mc, "memory_consumption_mismatch", "memory_consumption()==" + std::to_string(mc) + " but the block has " + std::to_string(blk->bytes) + " bytes");
        VF_REQUIRE(static_cast<std::size_t>(de - db) <= mc, "data_range_exceeds_block", "data_end()-data_begin()==" + std::to_string(de - db) + " > memory_consumption()==" + std::to_string(mc));
        VF_REQUIRE(reinterpret_cast<std::uintptr_t>(de) <= hi && reinterpret_cast<std::uintptr_t>(db) >= lo, "data_range_exceeds_block", "data range leaves the block");
        for (std::size_t i = 0; i < v.size(); ++i)
        {
            auto ex = (i % 2) ? extents(*rebound_const_iterator(s, i)) : extents(v[i]);
            for (std::size_t k = 0; k < N; ++k)
            {
                VF_REQUIRE(ex[k].begin >= lo && ex[k].end() <= hi, "object_outside_block",
                           "slot " + std::to_string(s) + " element " + std::to_string(i) + " field " + std::to_string(k) + " occupies [" + std::to_string(ex[k].begin - lo) + "," + std::to_string(ex[k].end() - lo) + ") of a block of " + std::to_string(blk->bytes) + " bytes");
            }
        }
        if (m.el.size() == m.cap && m.cap > 0 && (NV == 0 || payload_of(m) == m.budget))
        {
            if (AMAX > 1 || NV > 0) nt_flag = true;
        }
    }

    // C03: declared alignment
    template <class R>
    void check_alignment(const R& ref, const std::string& where)
    {
        auto ex = extents(ref);
        for (std::size_t k = 0; k < N; ++k)
        {
            if (LI::aligns[k] <= 1) continue;
            if (LI::kinds[k] != PLAIN && ex[k].count == 0) continue;
            VF_REQUIRE(ex[k].begin % LI::aligns[k] == 0, "misaligned_object",
                       where + " field " + std::to_string(k) + " at address residue " + std::to_string(ex[k].begin % LI::aligns[k]) + " mod " + std::to_string(LI::aligns[k]));
        }
    }
    void monitor_alignment(int s)
    {
        if (!usable(s)) return;
        Vec& v = *vs[s].v;
        for (std::size_t i = 0; i < v.size(); ++i)
        {
            check_alignment(v[i], "slot " + std::to_string(s) + " element " + std::to_string(i));
            if (bad()) return;
        }
    }

    // C04: order, containment, no overlap, span lengths
    void monitor_layout(int s)
    {
        if (!usable(s)) return;
        Vec& v = *vs[s].v;
        MVec& m = vs[s].m;
        const std::size_t n = v.size();
        if (n == 0) return;
        const auto vb = reinterpret_cast<std::uintptr_t>(v.data_begin());
        const auto ve = reinterpret_cast<std::uintptr_t>(v.data_end());
        std::uintptr_t prev_end = vb;
        VF_REQUIRE(reinterpret_cast<std::uintptr_t>(v.begin().data()) == vb, "iterator_data_mismatch", "begin().data() != data_begin()");
        {
            const Vec& cv = v;
            VF_REQUIRE(reinterpret_cast<std::uintptr_t>(cv.data_begin()) == vb && reinterpret_cast<std::uintptr_t>(cv.data_end()) == ve && reinterpret_cast<std::uintptr_t>(cv.data()) == vb &&
                           reinterpret_cast<std::uintptr_t>(cv.begin().data()) == vb,
                       "data_const_mismatch", "const and non-const data()/data_begin()/data_end() disagree");
        }
        bool diff_sizes = false;
        std::size_t first_bytes = 0;
        for (std::size_t i = 0; i < n; ++i)
        {
            auto r = v[i];
            auto ex = extents(r);
            const auto rb = reinterpret_cast<std::uintptr_t>(r.data_begin());
            const auto re = reinterpret_cast<std::uintptr_t>(r.data_end());
            auto it = v.begin() + static_cast<std::ptrdiff_t>(i);
            VF_REQUIRE(reinterpret_cast<std::uintptr_t>(it.data()) == rb, "iterator_data_mismatch", "iterator.data() != reference.data_begin() at index " + std::to_string(i));
            {
                // the const-qualified overloads of operator*, operator-> and data() of an iterator object, and a
                // const_iterator of the const vector, denote the same objects as operator[]
                const auto cit = it;
                const typename Vec::const_iterator ccit = (i % 2) ? rebound_const_iterator(s, i) : static_cast<const Vec&>(v).begin() + static_cast<std::ptrdiff_t>(i);
                auto exc = extents(*cit);
                auto excc = extents(*ccit);
                bool same = reinterpret_cast<std::uintptr_t>(cit.data()) == rb && reinterpret_cast<std::uintptr_t>(ccit.data()) == rb &&
                            reinterpret_cast<std::uintptr_t>(cit->data_begin()) == rb && reinterpret_cast<std::uintptr_t>(cit->data_end()) == re &&
                            reinterpret_cast<std::uintptr_t>(ccit->data_begin()) == rb && reinterpret_cast<std::uintptr_t>(ccit->data_end()) == re &&
                            cit->size_in_bytes() == r.size_in_bytes();
                for (std::size_t k = 0; k < N && same; ++k)
                    same = exc[k].begin == ex[k].begin && exc[k].count == ex[k].count && excc[k].begin == ex[k].begin && excc[k].count == ex[k].count;
                VF_REQUIRE(same, "const_iterator_deref_mismatch", "dereferencing a const-qualified iterator / a const_iterator at index " + std::to_string(i) + " denotes other addresses or span lengths than operator[]");
            }
            VF_REQUIRE(rb == ex[0].begin, "element_begin_mismatch", "reference.data_begin() is not the start of field 0");
            VF_REQUIRE(re == ex[N - 1].end(), "element_end_mismatch", "reference.data_end() is not the end of the last field");
            VF_REQUIRE(rb >= prev_end, "elements_overlap", "element " + std::to_string(i) + " starts before the end of its predecessor");
            VF_REQUIRE(rb >= vb && re <= ve, "element_outside_data_range", "element " + std::to_string(i) + " [" + std::to_string(rb - vb) + "," + std::to_string(re - vb) + ") not inside [data_begin(), data_end()) of length " + std::to_string(ve - vb));
            std::uintptr_t fprev = rb;
            for (std::size_t k = 0; k < N; ++k)
            {
                VF_REQUIRE(ex[k].begin >= fprev, "fields_overlap_or_misordered", "element " + std::to_string(i) + " field " + std::to_string(k) + " starts before the end of field " + std::to_string(k ? k - 1 : 0));
                VF_REQUIRE(ex[k].end() <= re, "field_outside_element", "field end beyond reference.data_end()");
                fprev = ex[k].end();
                std::size_t want = 1;
                if (LI::kinds[k] == FIXED) want = m.fixed[LI::fixed_index(k)];
                if (LI::kinds[k] == VARYING) want = m.el[i].f[k].size();
                VF_REQUIRE(ex[k].count == want, "span_length_mismatch", "element " + std::to_string(i) + " field " + std::to_string(k) + " has " + std::to_string(ex[k].count) + " objects, expected " + std::to_string(want));
            }
            prev_end = re;
            if (i == 0)
                first_bytes = re - rb;
            else if (re - rb != first_bytes)
                diff_sizes = true;
        }
        if (diff_sizes) nt_flag = true;
    }

    // C05 (i): greedy layout
    void monitor_greedy(int s)
    {
        if (!usable(s)) return;
        Vec& v = *vs[s].v;
        const std::size_t n = v.size();
        if (n == 0) return;
        std::uintptr_t cursor = reinterpret_cast<std::uintptr_t>(v.data_begin());
        const Block* blk = ledger().find_containing(v.data_begin());
        if (blk) VF_REQUIRE(cursor == reinterpret_cast<std::uintptr_t>(blk->user), "first_element_not_at_block_start", "first element does not start at the block base");
        for (std::size_t i = 0; i < n; ++i)
        {
            auto ex = extents(v[i]);
            cursor = align_up(cursor, AMAX);
            bool padded = false, unpadded = false;
            for (std::size_t k = 0; k < N; ++k)
            {
                const std::uintptr_t want = align_up(cursor, LI::aligns[k]);
                if (want != cursor) padded = true; else unpadded = true;
                if (!(LI::kinds[k] != PLAIN && ex[k].count == 0))
                    VF_REQUIRE(ex[k].begin == want, "not_tightly_packed", "slot " + std::to_string(s) + " element " + std::to_string(i) + " field " + std::to_string(k) + " is at offset " + std::to_string(ex[k].begin - reinterpret_cast<std::uintptr_t>(v.data_begin())) + " but the lowest suitably aligned offset is " + std::to_string(want - reinterpret_cast<std::uintptr_t>(v.data_begin())));
                cursor = want + ex[k].count * ex[k].tsize;
            }
            if (padded && unpadded) nt_flag = true;
        }
        if constexpr (NV == 0)
        {
            if (n == vs[s].m.cap && vs[s].m.exact)
            {
                const std::size_t used = cursor - reinterpret_cast<std::uintptr_t>(v.data_begin());
                VF_REQUIRE(align_up(used, AMAX) == v.memory_consumption(), "full_vector_footprint", "full vector uses " + std::to_string(used) + " bytes (" + std::to_string(align_up(used, AMAX)) + " rounded) but memory_consumption()==" + std::to_string(v.memory_consumption()));
            }
        }
    }

    // C06: registry events and sweep
    void collect_tracked(std::set<const void*>& out)
    {
        if constexpr (LI::ANY_TRACKED)
        {
            for (int s = 0; s < NSLOT; ++s)
            {
                if (!readable(s)) continue;
                Vec& v = *vs[s].v;
                for (std::size_t i = 0; i < v.size(); ++i)
                {
                    auto ex = extents(v[i]);
                    for (std::size_t k = 0; k < N; ++k)
                        if (LI::tracked[k])
                            for (std::size_t j = 0; j < ex[k].count; ++j) out.insert(reinterpret_cast<const void*>(ex[k].begin + j * ex[k].tsize));
                }
            }
            collect_tracked_elems(out);
        }
    }
    void collect_tracked_elems(std::set<const void*>& out)
    {
        for (int d = 0; d < NSLOT; ++d)
        {
            if (!es[d].alive || es[d].moved_from || !es[d].e->memory_) continue;
            auto ex = extents(*es[d].e);
            for (std::size_t k = 0; k < N; ++k)
                if (LI::tracked[k])
                    for (std::size_t j = 0; j < ex[k].count; ++j) out.insert(reinterpret_cast<const void*>(ex[k].begin + j * ex[k].tsize));
        }
    }

    void monitor_lifetimes()
    {
        auto& r = registry();
        if (!r.errors.empty())
        {
            fail(r.errors[0].code, r.errors[0].msg);
            return;
        }
        if constexpr (LI::ANY_TRACKED)
        {
            // skip the sweep while a moved-from vector exists: its objects are unspecified
            for (int s = 0; s < NSLOT; ++s)
                if (vs[s].m.alive && vs[s].m.moved_from) return;
            for (int s = 0; s < NSLOT; ++s)
                if (es[s].alive && es[s].moved_from) return;
            std::set<const void*> held;
            collect_tracked(held);
            std::size_t in_blocks = 0;
            for (auto& [p, tag] : r.live)
            {
                if (ledger().find_containing(p) == nullptr) continue;
                ++in_blocks;
                VF_REQUIRE(held.count(p) == 1, "live_object_not_held", "a live object at " + Registry::addr(p) + " inside container memory is not reachable through any container (leaked object)");
            }
            for (auto* p : held) VF_REQUIRE(r.live.count(p) == 1, "held_object_not_alive", "object at " + Registry::addr(p) + " is reachable through the API but is not alive");
            (void)in_blocks;
        }
    }

    // C05 footprint: a vector uses its data block and, only when the list has a VaryingSize parameter, one table of
    // element addresses; an element uses one block. Nothing else may stay allocated between operations.
    void monitor_block_census()
    {
        std::size_t holders = 0, vectors = 0;
        for (int s = 0; s < NSLOT; ++s)
        {
            if (vs[s].m.alive) ++vectors;
            if (es[s].alive) ++holders;
        }
        std::size_t tables = 0, blocks = 0;
        for (auto& [k, b] : ledger().live) (b.is_table ? tables : blocks) += 1;
        if constexpr (NV == 0)
            VF_REQUIRE(tables == 0, "address_table_without_varying", "a list without VaryingSize parameter holds " + std::to_string(tables) + " element address table(s): it uses more than memory_consumption() bytes");
        VF_REQUIRE(tables <= vectors, "excess_blocks", std::to_string(tables) + " address tables are allocated for " + std::to_string(vectors) + " vectors");
        VF_REQUIRE(blocks <= vectors + holders, "excess_blocks", std::to_string(blocks) + " data blocks are allocated for " + std::to_string(vectors) + " vectors and " + std::to_string(holders) + " elements");
    }

    // C07
    void monitor_ledger()
    {
        auto& l = ledger();
        if (!l.errors.empty())
        {
            fail(l.errors[0].code, l.errors[0].msg);
            return;
        }
        ++st.checks;
    }

    // C08: no memory from an allocator that does not compare equal to get_allocator(): deallocation through a foreign
    // arena (seen by the ledger) and a census of the address-table blocks per arena
    void monitor_ownership()
    {
        for (auto& e : ledger().errors)
            if (e.code == "dealloc_wrong_arena")
            {
                fail("foreign_memory_owned", e.msg);
                return;
            }
        if constexpr (NV > 0 && !K::ae)
        {
            std::map<int, long> expected, slack, actual;
            for (int s = 0; s < NSLOT; ++s)
            {
                if (!vs[s].m.alive) continue;
                const int arena = vs[s].v->get_allocator().arena;
                if (usable(s))
                    expected[arena] += vs[s].m.has_table ? 1 : 0;
                else
                    ++slack[arena];  // a moved-from vector may or may not still hold a table
            }
            for (auto& [k, b] : ledger().live)
                if (b.is_table) ++actual[b.arena];
            for (auto& [arena, n] : expected)
                VF_REQUIRE(actual[arena] >= n && actual[arena] <= n + slack[arena], "foreign_memory_owned",
                           "arena " + std::to_string(arena) + " holds " + std::to_string(actual[arena]) + " element address tables but " + std::to_string(n) + " vectors with that allocator need one: a vector owns a table from an allocator that is not its get_allocator()");
        }
    }

    // pre/post snapshots for C10 / C16
    Snap snaps[NSLOT];
    uint64_t pre_alloc{}, pre_dealloc{};
    void take_snaps()
    {
        pre_alloc = ledger().n_alloc;
        pre_dealloc = ledger().n_dealloc;
        for (int s = 0; s < NSLOT; ++s)
        {
            Snap& sn = snaps[s];
            sn = Snap{};
            if (!usable(s)) continue;
            Vec& v = *vs[s].v;
            sn.alive = true;
            sn.size = v.size();
            sn.cap = v.capacity();
            sn.memcons = v.memory_consumption();
            sn.fixed = vs[s].m.fixed;
            if (sn.size > 0) sn.data_begin = reinterpret_cast<std::uintptr_t>(v.data_begin());
            sn.cdata_begin = reinterpret_cast<std::uintptr_t>(static_cast<const Vec&>(v).data_begin());
            for (std::size_t i = 0; i < sn.size; ++i)
            {
                sn.ext.push_back(extents(v[i]));
                sn.values.push_back(read_ref(v[i]));
            }
        }
    }

    // C10: reserve
    void monitor_reserve(const Op& op, int s, std::size_t old_cap_model, std::size_t n)
    {
        (void)op;
        Vec& v = *vs[s].v;
        const Snap& sn = snaps[s];
        VF_REQUIRE(v.capacity() >= sn.cap, "capacity_reduced", "reserve reduced capacity() from " + std::to_string(sn.cap) + " to " + std::to_string(v.capacity()));
        VF_REQUIRE(v.size() == sn.size, "size_changed", "reserve changed size() from " + std::to_string(sn.size) + " to " + std::to_string(v.size()));
        for (std::size_t i = 0; i < sn.size; ++i)
        {
            MElem a = read_ref(v[i]);
            VF_REQUIRE(a == sn.values[i], "value_changed", "reserve changed element " + std::to_string(i) + " from " + show(sn.values[i]) + " to " + show(a));
        }
        if constexpr (NF > 0) check_fixed_sizes(s, Idx{});
        if (bad()) return;
        if (n <= old_cap_model)
        {
            VF_REQUIRE(v.capacity() == sn.cap, "noop_reserve_changed_capacity", "reserve(n<=capacity()) changed capacity()");
            VF_REQUIRE(v.memory_consumption() == sn.memcons, "noop_reserve_changed_memory", "reserve(n<=capacity()) changed memory_consumption()");
            VF_REQUIRE(ledger().n_alloc == pre_alloc && ledger().n_dealloc == pre_dealloc, "noop_reserve_allocated", "reserve(n<=capacity()) touched the allocator");
            if (sn.size > 0) VF_REQUIRE(reinterpret_cast<std::uintptr_t>(v.data_begin()) == sn.data_begin, "noop_reserve_moved_data", "reserve(n<=capacity()) moved the data");
        }
        else
        {
            VF_REQUIRE(v.capacity() == n, "capacity_after_reserve", "after reserve(" + std::to_string(n) + ") capacity()==" + std::to_string(v.capacity()));
        }
    }

    // C16: address stability. `stable_upto[s]`: elements [0, stable_upto) of slot s must keep their addresses;
    // no_alloc: the op must not touch the allocator.
    void monitor_stability(const std::array<std::size_t, NSLOT>& stable_upto, const std::array<bool, NSLOT>& same_block, bool no_alloc, const char* what)
    {
        if (no_alloc && !constructed_this_op)
            VF_REQUIRE(ledger().n_alloc == pre_alloc && ledger().n_dealloc == pre_dealloc, "hidden_allocation", std::string(what) + " touched the allocator (" + std::to_string(ledger().n_alloc - pre_alloc) + " allocations, " + std::to_string(ledger().n_dealloc - pre_dealloc) + " deallocations)");
        for (int s = 0; s < NSLOT; ++s)
        {
            const Snap& sn = snaps[s];
            if (!sn.alive || !usable(s)) continue;
            Vec& v = *vs[s].v;
            if (sn.size >= 2 && no_alloc) ++stable_checks;
            if (same_block[s])
            {
                VF_REQUIRE(v.capacity() == sn.cap, "capacity_changed", std::string(what) + " changed capacity()");
                if (sn.size > 0 && v.size() > 0)
                    VF_REQUIRE(reinterpret_cast<std::uintptr_t>(v.data_begin()) == sn.data_begin, "data_begin_changed", std::string(what) + " changed data_begin()");
                VF_REQUIRE(reinterpret_cast<std::uintptr_t>(static_cast<const Vec&>(v).data_begin()) == sn.cdata_begin, "data_begin_changed", std::string(what) + " changed data_begin() (const)");
                VF_REQUIRE(static_cast<const Vec&>(v).data_begin() == v.data_begin(), "data_begin_changed", std::string(what) + ": const and non-const data_begin() differ");
            }
            const std::size_t upto = std::min<std::size_t>({stable_upto[s], sn.size, v.size()});
            for (std::size_t i = 0; i < upto; ++i)
            {
                auto ex = extents(v[i]);
                for (std::size_t k = 0; k < N; ++k)
                    VF_REQUIRE(ex[k].begin == sn.ext[i][k].begin, "address_changed", std::string(what) + " moved element " + std::to_string(i) + " field " + std::to_string(k) + " of slot " + std::to_string(s));
            }
        }
    }

    // C18: empty vectors
    void monitor_empty(int s)
    {
        if (!usable(s)) return;
        Vec& v = *vs[s].v;
        const Vec& cv = v;
        if (!vs[s].m.el.empty()) return;
        VF_REQUIRE(v.size() == 0, "empty_size", "size() of an empty vector is " + std::to_string(v.size()));
        VF_REQUIRE(v.empty(), "empty_empty", "empty() is false on an empty vector");
        VF_REQUIRE(v.begin() == v.end(), "empty_begin_end", "begin() != end() on an empty vector");
        VF_REQUIRE(cv.begin() == cv.end(), "empty_begin_end", "const begin() != end() on an empty vector");
        auto* db = v.data_begin();
        auto* de = v.data_end();
        VF_REQUIRE(db == de, "empty_data_range", "data_begin() != data_end() on an empty vector (difference " + std::to_string(de - db) + ")");
        VF_REQUIRE(cv.data_begin() == db && cv.data_end() == de && cv.data() == db && v.data() == db, "empty_data_const_mismatch", "const and non-const data()/data_begin()/data_end() disagree on an empty vector");
        if (db != nullptr)
        {
            const Block* blk = ledger().find_containing(db);
            VF_REQUIRE(blk != nullptr, "empty_data_pointer_invalid", "data_begin() of an empty vector is neither null nor inside / one past a block of the allocator");
        }
    }

    // -----------------------------------------------------------------------------------------------------------
    // per-op monitor dispatch
    // -----------------------------------------------------------------------------------------------------------
    void after_op(const Op& op)
    {
        (void)op;
        switch (prop)
        {
            case 1:
            case 9:
            case 10:
            case 11:
            case 12:
                for (int s = 0; s < NSLOT && !bad(); ++s) monitor_values(s);
                if (prop == 12)
                    for (int s = 0; s < NSLOT && !bad(); ++s) monitor_elem_values(s);
                break;
            case 2:
                for (int s = 0; s < NSLOT && !bad(); ++s) monitor_bounds(s);
                break;
            case 3:
                for (int s = 0; s < NSLOT && !bad(); ++s) monitor_alignment(s);
                for (int s = 0; s < NSLOT && !bad(); ++s) monitor_elem_layout(s);
                break;
            case 4:
                for (int s = 0; s < NSLOT && !bad(); ++s) monitor_layout(s);
                for (int s = 0; s < NSLOT && !bad(); ++s) monitor_elem_layout(s);
                break;
            case 5:
                if (!bad()) monitor_block_census();
                for (int s = 0; s < NSLOT && !bad(); ++s) monitor_greedy(s);
                for (int s = 0; s < NSLOT && !bad(); ++s) monitor_elem_layout(s);
                break;
            case 6: monitor_lifetimes(); break;
            case 7: monitor_ledger(); break;
            case 8: monitor_ownership(); break;
            case 18:
                for (int s = 0; s < NSLOT && !bad(); ++s)
                {
                    monitor_empty(s);
                    if (!bad()) monitor_values(s);
                }
                break;
            default: break;
        }
        // backstop for every property, like a sanitizer report: events of the checking allocator (double free, unknown
        // pointer, wrong size or arena) and of the object registry (construction on a live object, use or destruction
        // of a dead one, block freed with live objects) are failures whichever property is being decided
        if (!bad() && prop != 17)
        {
            if (!ledger().errors.empty())
                fail(ledger().errors[0].code, ledger().errors[0].msg);
            else if (!registry().errors.empty())
                fail(registry().errors[0].code, registry().errors[0].msg);
        }
    }

    // C11/C12: objects with a user-provided assignment operator (Stamped) whose value changes while no object is
    // constructed or relocated - reference assignment, swap, iter_swap, rotate/reverse/swap_ranges, element<->reference
    // assignment - must have been assigned through that operator: their stamp is newer than the clock before the op
    struct StampSnap
    {
        const unsigned char* p;
        int32_t value;
        uint32_t stamp;
        int kind;  // stamp_kind_v of the object's type
    };
    struct StampView
    {
        int32_t value;
        uint32_t stamp;
    };
    static StampView stamp_view(const unsigned char* p)
    {
        StampView w;
        std::memcpy(&w, p, sizeof w);  // Stamped, MvStamped and CpStamped share this layout
        return w;
    }
    std::vector<StampSnap> stamp_snaps;
    uint32_t stamp_t0{};
    int assign_mode{};  // set by the operation: 1 = copy assignment of the fields, 2 = move assignment / swap, 0 = unknown
    static bool assigns_through_references(uint8_t k)
    {
        return k == K_REFASSIGN || k == K_REFSWAP || k == K_ITERSWAP || k == K_ROTATE || k == K_REVERSE || k == K_SWAPRANGES ||
               k == K_ELEM_TO_REF || k == K_WRITE;
    }
    void take_stamp_snaps()
    {
        stamp_snaps.clear();
        stamp_t0 = g_stamp_clock;
        if constexpr (LI::ANY_STAMPED)
            for (int s = 0; s < NSLOT; ++s)
            {
                if (!usable(s)) continue;
                Vec& v = *vs[s].v;
                for (std::size_t i = 0; i < v.size(); ++i)
                {
                    auto ex = extents(v[i]);
                    for (std::size_t k = 0; k < N; ++k)
                        if (LI::stamp_kind[k] != 0)
                            for (std::size_t j = 0; j < ex[k].count; ++j)
                            {
                                auto* p = reinterpret_cast<const unsigned char*>(ex[k].begin + j * ex[k].tsize);
                                const auto w = stamp_view(p);
                                stamp_snaps.push_back({p, w.value, w.stamp, LI::stamp_kind[k]});
                            }
                }
            }
    }
    void check_stamp_snaps(const Op& op)
    {
        for (auto& sn : stamp_snaps)
        {
            const auto w = stamp_view(sn.p);
            if (w.value == sn.value) continue;
            // which operator has to have run: Stamped - any; MvStamped - only when the fields were move-assigned or
            // swapped (its copy assignment is trivial); CpStamped - only when they were copy-assigned
            const bool must = sn.kind == 1 || (sn.kind == 2 && assign_mode == 2) || (sn.kind == 3 && assign_mode == 1);
            if (!must) continue;
            if (sn.kind != 1) st.label(sn.kind == 2 ? "asym_move_assign_checked" : "asym_copy_assign_checked");
            VF_REQUIRE(w.stamp > stamp_t0, "assignment_operator_bypassed",
                       std::string(kind_name(op.kind)) + (assign_mode == 1 ? " (copy)" : assign_mode == 2 ? " (move/swap)" : "") + " changed the value of an object with a user-provided " +
                           (sn.kind == 2 ? "move " : sn.kind == 3 ? "copy " : "") + "assignment operator from " + std::to_string(sn.value) + " to " + std::to_string(w.value) +
                           " without calling it (stamp " + std::to_string(w.stamp) + ", clock before the operation " + std::to_string(stamp_t0) + "): its bytes were copied");
            nt_flag = true;
        }
    }

    void step(const Op& op)
    {
        ++st.ops_executed;
        ++st.kind_hist[op.kind];
        constructed_this_op = false;
        assign_mode = 0;
        const bool want_snap = (prop == 10 || prop == 16);
        if (want_snap) take_snaps();
        const bool want_stamps = LI::ANY_STAMPED && (prop == 11 || prop == 12) && assigns_through_references(op.kind);
        if (want_stamps) take_stamp_snaps();
        std::array<std::size_t, NSLOT> upto;
        upto.fill(~std::size_t{0});
        std::array<bool, NSLOT> same;
        same.fill(true);
        const int s = op.a % NSLOT;
        switch (op.kind)
        {
            case K_NEW:
                op_new(op);
                same[s] = false;
                upto[s] = 0;
                if (prop == 16 && !bad()) monitor_stability(upto, same, false, "construction");
                break;
            case K_DEFAULT:
                op_default(op);
                break;
            case K_EMPLACE:
                op_emplace(op);
                if (prop == 16 && !bad()) monitor_stability(upto, same, true, "emplace_back within capacity");
                break;
            case K_FILL:
                op_fill(op);
                if (prop == 16 && !bad()) monitor_stability(upto, same, true, "emplace_back within capacity");
                break;
            case K_POP:
                op_pop(op);
                if (prop == 16 && !bad()) monitor_stability(upto, same, true, "pop_back");
                break;
            case K_ERASE1:
            {
                const std::size_t n = usable(s) ? vs[s].m.el.size() : 0;
                if (n) upto[s] = op.b % n;
                op_erase1(op);
                if (prop == 16 && !bad()) monitor_stability(upto, same, true, "erase(position)");
                break;
            }
            case K_ERASE:
            {
                const std::size_t n = usable(s) ? vs[s].m.el.size() : 0;
                upto[s] = op.b % (n + 1);
                op_erase(op);
                if (prop == 16 && !bad()) monitor_stability(upto, same, true, "erase(first,last)");
                break;
            }
            case K_CLEAR:
                op_clear(op);
                if (prop == 16 && !bad()) monitor_stability(upto, same, true, "clear");
                break;
            case K_RESERVE:
            {
                const bool was_usable = usable(s);
                const std::size_t old_cap = was_usable ? vs[s].m.cap : 0;
                const std::size_t cons_before = was_usable ? vs[s].v->memory_consumption() : 0;
                ledger().op_max_data_bytes = 0;
                op_reserve(op);
                if (was_usable && prop == 5 && !bad() && vs[s].m.cap > old_cap) check_footprint(s, cons_before, 0, vs[s].m.budget, "reserve");
                if (!was_usable) break;
                const std::size_t delta = op.b % 7;
                const std::size_t n = delta == 0 ? (old_cap > 0 ? old_cap - 1 : 0) : old_cap + delta - 1;
                if (prop == 10 && !bad()) monitor_reserve(op, s, old_cap, n);
                if (prop == 16 && !bad())
                {
                    if (n <= old_cap)
                        monitor_stability(upto, same, true, "reserve(n<=capacity())");
                    else
                    {
                        same[s] = false;
                        upto[s] = 0;
                        monitor_stability(upto, same, false, "reserve(n>capacity())");
                    }
                }
                break;
            }
            case K_DESTROY: op_destroy(op); break;
            default:
                if (!step_ext(op))
                {
                    ++st.ops_skipped;
                    --st.kind_hist[op.kind];
                }
                break;
        }
        if (want_stamps && !constructed_this_op && !bad()) check_stamp_snaps(op);
        if (!bad()) after_op(op);
    }

#include "runner_ext.inc"

    // ---------------------------------------------------------------------------------------------------------
    // C17: the last op of the program is the target of the fault injection
    // ---------------------------------------------------------------------------------------------------------
    void fault_step(const Op& op)
    {
        // make operands exist before the fault is armed (repairs would otherwise allocate under the fault)
        const int s = op.a % NSLOT;
        switch (op.kind)
        {
            case K_RESERVE:
            case K_COPYCTOR:
            case K_COPYASSIGN:
            case K_MOVEASSIGN: ensure(s, op); break;
            default: break;
        }
        if (op.kind == K_COPYASSIGN || op.kind == K_MOVEASSIGN) ensure_alive_target(other_slot(s, op.a / 3));
        if (op.kind == K_COPYCTOR) destroy_slot(other_slot(s, op.a / 3));
        if (op.kind == K_NEW) destroy_slot(s);
        if (op.kind == K_ELEM_FROM_REF || op.kind == K_ELEM_COPY || op.kind == K_ELEM_MOVE)
        {
            if (op.kind == K_ELEM_FROM_REF)
                destroy_eslot(static_cast<int>((op.a / 3) % NSLOT));
            else
                destroy_eslot(other_slot(s, op.a / 3));
        }
        if (op.kind == K_ELEM_COPY || op.kind == K_ELEM_MOVE || op.kind == K_ELEM_COPYASSIGN || op.kind == K_ELEM_MOVEASSIGN)
        {
            ensure_elem(s, op);
            if (op.kind == K_ELEM_COPYASSIGN || op.kind == K_ELEM_MOVEASSIGN)
            {
                Op op2 = op;
                op2.b += 1;
                op2.c += 1;
                op2.d += 8;
                const int d = other_slot(s, op.a / 3);
                if (!es[d].alive) ensure_elem(d, op2);
            }
        }
        const uint64_t before = ledger().n_alloc;
        bool threw = false;
        if (g_fault_k > 0) ledger().fail_countdown = g_fault_k;
        try
        {
            step(op);
        }
        catch (const std::bad_alloc&)
        {
            threw = true;
        }
        ledger().fail_countdown = -1;
        st.last_op_allocs = ledger().n_alloc - before;
        st.last_op_threw = threw;
        if (!threw || bad()) return;
        st.label("fault_injected");
        // which operands are now "valid but unspecified"
        if (op.kind == K_COPYASSIGN || op.kind == K_MOVEASSIGN)
        {
            const int dst = other_slot(s, op.a / 3);
            vs[dst].m.unspecified = true;
            vs[dst].m.moved_from = false;
            if (op.kind == K_MOVEASSIGN) vs[s].m.unspecified = true;
        }
        if (op.kind == K_ELEM_COPYASSIGN || op.kind == K_ELEM_MOVEASSIGN)
        {
            const int dst = other_slot(s, op.a / 3);
            es[dst].unspecified = true;
            if (op.kind == K_ELEM_MOVEASSIGN) es[s].unspecified = true;
        }
        if (op.kind == K_ELEM_MOVE) es[s].unspecified = true;
        after_fault();
    }

    void after_fault()
    {
        // 1. ledger / registry events so far
        if (!ledger().errors.empty())
        {
            fail(ledger().errors[0].code, "after an injected allocation failure: " + ledger().errors[0].msg);
            if (bad()) return;
        }
        if (!registry().errors.empty())
        {
            fail(registry().errors[0].code, "after an injected allocation failure: " + registry().errors[0].msg);
            if (bad()) return;
        }
        // 2. untouched operands equal their models (reserve / copy construction leave the source unchanged)
        for (int s = 0; s < NSLOT && !bad(); ++s) monitor_values(s);
        for (int s = 0; s < NSLOT && !bad(); ++s) monitor_elem_values(s);
        if (bad()) return;
        // 3. unspecified operands are valid: size() equals the number of live elements (every element readable,
        //    live tracked objects == reachable ones)
        for (int s = 0; s < NSLOT && !bad(); ++s)
        {
            if (!vs[s].m.alive || !vs[s].m.unspecified) continue;
            Vec& v = *vs[s].v;
            const std::size_t n = v.size();
            std::size_t seen = 0;
            for (auto&& r : v)
            {
                (void)read_ref(r);
                ++seen;
            }
            VF_REQUIRE(seen == n, "size_after_fault", "iteration yields " + std::to_string(seen) + " elements, size()==" + std::to_string(n));
        }
        for (int s = 0; s < NSLOT; ++s)
            if (es[s].alive && es[s].unspecified && es[s].e->memory_) (void)read_ref(*es[s].e);
        if (!registry().errors.empty())
        {
            fail(registry().errors[0].code, "reading an operand after an injected allocation failure: " + registry().errors[0].msg);
            if (bad()) return;
        }
        monitor_lifetimes();
        if (bad()) return;
        // 4. assignable: give every unspecified vector a fresh value and read it back
        for (int s = 0; s < NSLOT && !bad(); ++s)
        {
            if (!vs[s].m.alive || !vs[s].m.unspecified) continue;
            const int scratch = (s + 1) % NSLOT == s ? (s + 2) % NSLOT : (s + 1) % NSLOT;
            int t = scratch;
            if (vs[t].m.alive && vs[t].m.unspecified) t = (s + 2) % NSLOT;
            // three ways of giving it a value, chosen by the case: stealing move assignment (equal allocator),
            // move assignment from an unequal allocator (element-wise unless the allocator propagates or is always
            // equal: re-uses or replaces whatever block the vector believes it has) and copy assignment
            unsigned how = (prog.junk + static_cast<unsigned>(s)) % 3;
            if (how == 2 && !(LI::ALL_COPYABLE && LI::ALL_COPY_ASSIGNABLE)) how = 1;
            const int old_arena = vs[s].m.arena;
            const int src_arena = how == 1 ? (old_arena + 1) % 3 : old_arena;
            construct_slot(t, 2, 16, fixed_from(9), src_arena);
            MElem e = make_model_elem(vs[t].m, 5, 1, false, remaining_budget(vs[t].m));
            do_emplace_model(*vs[t].v, e, 0);
            vs[t].m.el.push_back(e);
            if (how == 2)
            {
                if constexpr (LI::ALL_COPYABLE && LI::ALL_COPY_ASSIGNABLE) *vs[s].v = static_cast<const Vec&>(*vs[t].v);
                vs[s].m = vs[t].m;
                vs[s].m.arena = K::pocca ? src_arena : old_arena;
                st.label("after_fault_copy_assigned");
            }
            else
            {
                *vs[s].v = std::move(*vs[t].v);
                vs[s].m = vs[t].m;
                vs[s].m.arena = K::pocma ? src_arena : old_arena;
                vs[t].m.moved_from = true;
                vs[t].m.el.clear();
                st.label(how == 1 ? "after_fault_move_assigned_unequal" : "after_fault_move_assigned");
            }
            vs[s].m.cap = vs[s].v->capacity();
            vs[s].m.budget_known = false;
            vs[s].m.exact = false;
            monitor_values(s);
        }
    }

    void finish()
    {
        // destroy everything, then the end-of-case clauses (after a failure nothing is touched any more)
        if (bad()) return;
        for (int s = 0; s < NSLOT; ++s) destroy_eslot(s);
        for (int s = 0; s < NSLOT; ++s) destroy_slot(s);
        if (prop == 6)
        {
            auto& r = registry();
            if (!r.errors.empty())
            {
                fail(r.errors[0].code, r.errors[0].msg);
                return;
            }
            for (auto& [p, tag] : r.live)
                VF_REQUIRE(ledger().find_containing(p) == nullptr, "object_never_destroyed", "after all containers were destroyed an object at " + Registry::addr(p) + " is still alive in container memory");
            VF_REQUIRE(r.live.empty(), "object_never_destroyed", "after all containers were destroyed " + std::to_string(r.live.size()) + " tracked objects are still alive");
        }
        if (prop == 17)
        {
            auto& r = registry();
            if (!r.errors.empty())
            {
                fail(r.errors[0].code, r.errors[0].msg);
                if (bad()) return;
            }
            VF_REQUIRE(r.live.empty(), "object_never_destroyed", "after all containers were destroyed " + std::to_string(r.live.size()) + " tracked objects are still alive");
        }
        if (prop != 6 && prop != 7 && prop != 17)
        {
            // the backstop of after_op, for what the final destruction of all containers does
            if (!ledger().errors.empty())
                fail(ledger().errors[0].code, ledger().errors[0].msg);
            else if (!registry().errors.empty())
                fail(registry().errors[0].code, registry().errors[0].msg);
            if (bad()) return;
        }
        if (prop == 7 || prop == 17)
        {
            auto& l = ledger();
            if (!l.errors.empty())
            {
                fail(l.errors[0].code, l.errors[0].msg);
                if (bad()) return;
            }
            if (!l.live.empty())
            {
                const Block& b = l.live.begin()->second;
                fail("block_never_returned", std::to_string(l.live.size()) + " block(s) still allocated after all containers were destroyed; first: #" + std::to_string(b.seq) + " of " + std::to_string(b.bytes) + " bytes, value_type size " + std::to_string(b.tsize) + ", arena " + std::to_string(b.arena));
            }
        }
    }

    Verdict run()
    {
        ledger().reset(prog.junk);
        ledger().always_equal_mode = K::ae;
        ledger().on_release = &registry_release_hook;
        registry().reset();
        g_zero_toggle = prog.junk & 1;
        for (std::size_t i = 0; i < prog.ops.size() && !bad(); ++i)
        {
            cur_op = static_cast<int>(i);
            if (prop == 17 && i + 1 == prog.ops.size())
                fault_step(prog.ops[i]);
            else
                step(prog.ops[i]);
        }
        cur_op = static_cast<int>(prog.ops.size());
        finish();
        if (prop == 3 && relocations > 0 && LI::ANY_ALIGNED) nt_flag = true;
        if (prop == 6 && relocations >= 2 && LI::ANY_TRACKED) nt_flag = true;
        if (prop == 7 && (realloc_on_varying || arenas_used.size() >= 2)) nt_flag = true;
        if (prop == 16 && stable_checks >= 3 && erase_middle_seen) nt_flag = true;
        if (nt_flag) st.nontrivial = true;
        // release whatever is left so that the next case starts clean
        ledger().reset(0);
        registry().reset();
        return verdict;
    }
};

template <class Cfg>
Verdict run_config(int prop, const Program& p, Stats& st, unsigned guards)
{
    if (prop == 13 || prop == 14 || prop == 18)
    {
        // metamorphic re-run: the same program on memory with different initial contents must behave identically
        std::vector<int> first;
        {
            Runner<Cfg> r(prop, p, st, guards);
            Verdict v = r.run();
            if (!v.ok) return v;
            first = r.outcomes;
        }
        Program q = p;
        q.junk = p.junk ^ 0x5bd1e995u;
        Stats scratch;
        Runner<Cfg> r2(prop, q, scratch, guards);
        Verdict v2 = r2.run();
        if (!v2.ok)
        {
            v2.msg += " (only with the second initial memory pattern)";
            return v2;
        }
        if (r2.outcomes != first)
        {
            Verdict v;
            v.ok = false;
            char pbuf[8];
            std::snprintf(pbuf, sizeof pbuf, "C%02d.", prop);
            v.code = std::string(pbuf) + "depends_on_memory_contents";
            v.msg = "the same operations on memory with different previous contents gave different comparison results";
            v.op_index = static_cast<int>(p.ops.size());
            return v;
        }
        return v2;
    }
    Runner<Cfg> r(prop, p, st, guards);
    return r.run();
}

template <class Cfg>
constexpr unsigned caps_of()
{
    using LI = typename Cfg::LI;
    unsigned c = 0;
    if (LI::ALL_COPYABLE) c |= CAP_COPY;
    if (LI::ALL_COPY_ASSIGNABLE) c |= CAP_COPYASSIGN;
    if (LI::NV > 0) c |= CAP_VARYING;
    if (LI::REF_ASSIGNABLE) c |= CAP_REFASSIGN;
    if (!LI::ALL_TRIVIAL) c |= CAP_NONTRIVIAL;
    if (LI::ANY_TRACKED) c |= CAP_TRACKED;
    if (LI::ANY_ALIGNED) c |= CAP_ALIGNED;
    if (LI::COMPARES_BY_VALUE) c |= CAP_COMPARE;
    return c;
}
}  // namespace vf
