// C19 engine: rapidcheck generates schedules (thread count, per-thread lists of const operations); built with TSan.
#include "c19.hpp"
#include "common.hpp"

#include <rapidcheck.h>

#include <fstream>
#include <iostream>
#include <unordered_set>

using namespace c19;

static bool parse_plan(const std::string& path, Plan& p)
{
    std::ifstream in(path);
    if (!in) return false;
    std::string line;
    while (std::getline(in, line))
    {
        std::istringstream is(line);
        std::string w;
        if (!(is >> w)) continue;
        if (w == "seed") is >> p.seed;
        if (w == "thread")
        {
            std::vector<uint8_t> ops;
            int o;
            while (is >> o) ops.push_back(static_cast<uint8_t>(o));
            p.threads.push_back(ops);
        }
    }
    return !p.threads.empty();
}

int main(int argc, char** argv)
{
    int cases = 40, max_threads = 8;
    uint64_t seed = 1;
    std::string stats_path, current_path, replay_in;
    for (int i = 1; i < argc; ++i)
    {
        std::string a = argv[i];
        auto next = [&]() -> std::string { return i + 1 < argc ? argv[++i] : ""; };
        if (a == "--cases") cases = std::atoi(next().c_str());
        else if (a == "--threads") max_threads = std::atoi(next().c_str());
        else if (a == "--seed") seed = std::strtoull(next().c_str(), nullptr, 10);
        else if (a == "--stats") stats_path = next();
        else if (a == "--current") current_path = next();
        else if (a == "--replay") replay_in = next();
    }
    Entry& e = the_entry();
    if (!replay_in.empty())
    {
        Plan p;
        if (!parse_plan(replay_in, p)) return 3;
        uint64_t nt = 0;
        // a race is timing dependent only in which access TSan sees second; run the plan several times
        for (int r = 0; r < 5; ++r)
        {
            std::string msg = e.run(p, nt);
            if (!msg.empty())
            {
                std::cout << "REPLAY-FAIL code=C19.result_mismatch msg=" << msg << "\n";
                return 1;
            }
        }
        std::cout << "REPLAY-PASS\n";
        return 0;
    }
    std::string params = "seed=" + std::to_string(seed) + " max_success=" + std::to_string(cases) + " max_size=30";
    setenv("RC_PARAMS", params.c_str(), 1);
    auto opsGen = rc::gen::container<std::vector<uint8_t>>(rc::gen::resize(100, rc::gen::inRange<uint8_t>(0, O_COUNT_)));
    auto planGen = rc::gen::apply(
        [max_threads](uint32_t s, unsigned t, std::vector<std::vector<uint8_t>> lists)
        {
            Plan p;
            p.seed = s;
            const std::size_t T = 2 + t % static_cast<unsigned>(max_threads - 1);
            for (std::size_t i = 0; i < T; ++i)
            {
                std::vector<uint8_t> ops = i < lists.size() ? lists[i] : std::vector<uint8_t>{};
                if (ops.size() > 12) ops.resize(12);
                if (ops.empty()) ops.push_back(static_cast<uint8_t>((s + i) % O_COUNT_));
                p.threads.push_back(ops);
            }
            return p;
        },
        rc::gen::resize(100, rc::gen::inRange<uint32_t>(0, 65536)), rc::gen::resize(100, rc::gen::inRange<unsigned>(0, 64)),
        rc::gen::resize(16, rc::gen::container<std::vector<std::vector<uint8_t>>>(opsGen)));
    uint64_t evaluations = 0, thread_runs = 0;
    std::unordered_set<uint64_t> nontrivial;
    std::vector<std::string> samples;
    std::string fail_msg;
    Plan fail_plan;
    const bool ok = rc::check(
        [&]
        {
            const Plan p = *planGen;
            if (!current_path.empty())
            {
                std::ofstream o(current_path);
                o << "property C19\nrunner c19\nconfig " << e.name << "\ncode C19.data_race\n" << to_text(p);
            }
            ++evaluations;
            thread_runs += p.threads.size();
            uint64_t nt = 0;
            std::string msg = e.run(p, nt);
            if (!msg.empty())
            {
                fail_msg = msg;
                fail_plan = p;
                RC_FAIL(msg);
            }
            if (nt)
            {
                uint64_t h = vf::mix64(p.seed);
                for (auto& t : p.threads)
                {
                    h = vf::mix64(h ^ 0xabcdef);
                    for (auto o : t) h = vf::mix64(h ^ o);
                }
                if (nontrivial.insert(h).second && samples.size() < 3 && p.threads.size() <= 4)
                {
                    std::string s = "seed=" + std::to_string(p.seed);
                    for (auto& t : p.threads)
                    {
                        s += " | T:";
                        for (auto o : t) s += " " + std::to_string(o);
                    }
                    samples.push_back(s);
                }
            }
        });
    if (!ok && !current_path.empty())
    {
        std::ofstream o(current_path);
        o << "property C19\nrunner c19\nconfig " << e.name << "\ncode C19.result_mismatch\n# " << fail_msg << "\n" << to_text(fail_plan);
    }
    if (!stats_path.empty())
    {
        std::ofstream o(stats_path);
        o << "{\"config\": \"" << e.name << "\", \"ok\": " << (ok ? "true" : "false") << ", \"evaluations\": " << evaluations << ", \"thread_runs\": " << thread_runs
          << ", \"distinct_nontrivial\": " << nontrivial.size() << ", \"samples\": [";
        for (std::size_t i = 0; i < samples.size(); ++i) o << (i ? ", " : "") << "\"" << samples[i] << "\"";
        o << "]}\n";
    }
    std::cout << (ok ? "ENGINE-PASS" : "ENGINE-FAIL") << " evaluations=" << evaluations << "\n";
    return ok ? 0 : 1;
}
