// Shared plain-data types between the engines (which never see cntgs templates) and the per-configuration
// runners (which never see rapidcheck / libFuzzer).
#pragma once
#include <cstdint>
#include <cstdio>
#include <cstdlib>
#include <map>
#include <sstream>
#include <string>
#include <vector>

namespace vf
{
enum Kind : uint8_t
{
    K_NEW = 0,
    K_DEFAULT,
    K_EMPLACE,
    K_FILL,
    K_POP,
    K_ERASE1,
    K_ERASE,
    K_CLEAR,
    K_RESERVE,
    K_COPYCTOR,
    K_MOVECTOR,
    K_COPYASSIGN,
    K_MOVEASSIGN,
    K_SWAP,
    K_SELFASSIGN,
    K_SELFSWAP,
    K_DESTROY,
    K_WRITE,
    K_READALL,
    K_REFASSIGN,
    K_REFSWAP,
    K_ITERSWAP,
    K_ROTATE,
    K_REVERSE,
    K_SWAPRANGES,
    K_ITERMATH,
    K_ELEM_FROM_REF,
    K_ELEM_COPY,
    K_ELEM_MOVE,
    K_ELEM_COPYASSIGN,
    K_ELEM_MOVEASSIGN,
    K_ELEM_SWAP,
    K_ELEM_TO_REF,
    K_REF_TO_ELEM,
    K_ELEM_WRITE,
    K_ELEM_DESTROY,
    K_COMPARE,
    K_COMPARE_ELEM,
    K_CLONE_JUNK,  // rebuild slot b as a logical clone of slot a (different capacity / arena / junk), via emplace only
    K_MUTATE1,     // change exactly one non-count item of one element of a slot (comparison families)
    K_COUNT_
};

inline const char* kind_name(int k)
{
    static const char* names[] = {"NEW",          "DEFAULT",       "EMPLACE",        "FILL",           "POP",
                                  "ERASE1",       "ERASE",         "CLEAR",          "RESERVE",        "COPYCTOR",
                                  "MOVECTOR",     "COPYASSIGN",    "MOVEASSIGN",     "SWAP",           "SELFASSIGN",
                                  "SELFSWAP",     "DESTROY",       "WRITE",          "READALL",        "REFASSIGN",
                                  "REFSWAP",      "ITERSWAP",      "ROTATE",         "REVERSE",        "SWAPRANGES",
                                  "ITERMATH",     "ELEM_FROM_REF", "ELEM_COPY",      "ELEM_MOVE",      "ELEM_COPYASSIGN",
                                  "ELEM_MOVEASSIGN", "ELEM_SWAP",  "ELEM_TO_REF",    "REF_TO_ELEM",    "ELEM_WRITE",
                                  "ELEM_DESTROY", "COMPARE",       "COMPARE_ELEM",   "CLONE_JUNK",     "MUTATE1"};
    return (k >= 0 && k < K_COUNT_) ? names[k] : "?";
}

inline int kind_from_name(const std::string& s)
{
    for (int k = 0; k < K_COUNT_; ++k)
        if (s == kind_name(k)) return k;
    return -1;
}

struct Op
{
    uint8_t kind{};
    uint32_t a{}, b{}, c{}, d{};
};

struct Program
{
    uint32_t junk{};
    std::vector<Op> ops;
};

inline std::string to_text(const Program& p)
{
    std::ostringstream o;
    o << "junk " << p.junk << "\n";
    for (auto& op : p.ops)
        o << "op " << kind_name(op.kind) << " " << op.a << " " << op.b << " " << op.c << " " << op.d << "\n";
    return o.str();
}

inline std::string to_line(const Program& p)
{
    std::ostringstream o;
    o << "junk=" << p.junk;
    for (auto& op : p.ops) o << " | " << kind_name(op.kind) << " " << op.a << " " << op.b << " " << op.c << " " << op.d;
    return o.str();
}

inline bool parse_program(std::istream& in, Program& p)
{
    std::string line;
    p = Program{};
    while (std::getline(in, line))
    {
        std::istringstream ls(line);
        std::string w;
        if (!(ls >> w)) continue;
        if (w == "junk")
            ls >> p.junk;
        else if (w == "op")
        {
            std::string k;
            Op op;
            ls >> k >> op.a >> op.b >> op.c >> op.d;
            int kk = kind_from_name(k);
            if (kk < 0) return false;
            op.kind = static_cast<uint8_t>(kk);
            p.ops.push_back(op);
        }
    }
    return true;
}

inline uint64_t mix64(uint64_t x)
{
    x += 0x9e3779b97f4a7c15ull;
    x = (x ^ (x >> 30)) * 0xbf58476d1ce4e5b9ull;
    x = (x ^ (x >> 27)) * 0x94d049bb133111ebull;
    return x ^ (x >> 31);
}

inline uint64_t hash_program(const Program& p, uint64_t seed)
{
    uint64_t h = mix64(seed);
    for (auto& op : p.ops)
    {
        h = mix64(h ^ op.kind);
        h = mix64(h ^ op.a);
        h = mix64(h ^ op.b);
        h = mix64(h ^ op.c);
        h = mix64(h ^ op.d);
    }
    return h;
}

// Properties are numbered 1..20 (C01..C20).
struct Stats
{
    uint64_t ops_executed{};
    uint64_t ops_skipped{};   // op could not apply in the current state and was dropped (repaired to a no-op)
    uint64_t ops_repaired{};  // operand was repaired into the sound domain (index wrapped, size clipped, reserve inserted, ...)
    uint64_t guarded{};       // op steered away from a listed known finding
    uint64_t checks{};        // oracle evaluations
    bool nontrivial{};        // set by the runner when the case meets the property's non-triviality rule
    uint64_t last_op_allocs{};  // C17: allocations performed by the last (target) op in the counting run
    bool last_op_threw{};       // C17: the injected failure surfaced as std::bad_alloc
    uint64_t kind_hist[K_COUNT_]{};
    std::map<std::string, uint64_t> labels;
    void label(const char* l) { ++labels[l]; }
};

struct Verdict
{
    bool ok{true};
    std::string code;  // e.g. "C01.value_mismatch"
    std::string msg;
    int op_index{-1};
};

struct ConfigEntry
{
    const char* name;
    const char* descr;  // full parameter list / allocator kind, human readable
    Verdict (*run)(int prop, const Program&, Stats&, unsigned guards);
    // capability words so the engine can drop weights of ops the configuration cannot support
    unsigned caps;
};

enum Caps : unsigned
{
    CAP_COPY = 1,        // all value types copy constructible
    CAP_VARYING = 2,     // list contains a VaryingSize
    CAP_REFASSIGN = 4,   // reference assignment/swap/permuting algorithms are in the list's domain (D13)
    CAP_NONTRIVIAL = 8,  // list has a non-trivial value type
    CAP_TRACKED = 16,    // list has a Tracked value type
    CAP_ALIGNED = 32,    // list has an AlignAs with A>1
    CAP_COMPARE = 64,    // all value types have == and <
    CAP_COPYASSIGN = 128 // all value types copy assignable
};

// guards for known findings (bit set = the finding is listed as known, steer generation away from it)
enum Guards : unsigned
{
    G_NONE = 0,
    G_MOVEASSIGN_UNITS = 1,  // KF-1: unequal-allocator move assignment into a smaller target over-allocates (bytes taken for units)
    G_VECTOR_ORDER_PARTIAL = 2,  // KF-2: vector < is a lexicographical compare over a partial element order: not transitive
    // views of the fault-enumeration mode (prop 17) used by the fault sub-campaigns of other properties: only failures
    // of that property's own oracle family count, everything else is left to C17 (not a known-finding guard)
    G_VIEW_LIFETIMES = 0x100,  // C06: object-lifetime registry events
    G_VIEW_LEDGER = 0x200,     // C07: checking-allocator events
    G_VIEW_RESERVE = 0x400,    // C10: any failure, but only when the operation that met the failure is reserve()
};

ConfigEntry& the_config();  // defined by the generated configuration TU

// C17: 0 = counting run (no fault); k > 0 = the k-th allocation of the last op throws std::bad_alloc
inline int g_fault_k = 0;

[[noreturn]] inline void die(const std::string& m)
{
    std::fprintf(stderr, "HARNESS-FATAL: %s\n", m.c_str());
    std::abort();
}
}  // namespace vf
