#!/usr/bin/env python3
"""C20: instantiation matrix generator. One TU per (parameter list, allocator kind); every operation is a function
guarded by `#if VF_OP == <k> || VF_OP == 0` so that a failing group can be bisected to single operations."""
import configs as cg

ALLOCS = {
    'std': 'std::allocator<std::byte>',
    'pmr': 'std::pmr::polymorphic_allocator<std::byte>',
    'stateful': 'c20::MiniAlloc<std::byte, false>',
    'propagating': 'c20::MiniAlloc<std::byte, true>',
    'final': 'c20::FinalAlloc<std::byte>',
}

PRELUDE = r'''
#include "values.hpp"
#include <cntgs/contiguous.hpp>
#include <algorithm>
#include <array>
#include <list>
#include <memory_resource>
#include <vector>
namespace c20 {
template <class T, bool Propagate>
struct MiniAlloc {
  using value_type = T;
  using propagate_on_container_copy_assignment = std::bool_constant<Propagate>;
  using propagate_on_container_move_assignment = std::bool_constant<Propagate>;
  using propagate_on_container_swap = std::bool_constant<Propagate>;
  using is_always_equal = std::false_type;
  template <class U> struct rebind { using other = MiniAlloc<U, Propagate>; };
  int id{0};
  MiniAlloc() = default;
  explicit MiniAlloc(int i) : id(i) {}
  template <class U> MiniAlloc(const MiniAlloc<U, Propagate>& o) : id(o.id) {}
  T* allocate(std::size_t n) { return std::allocator<T>{}.allocate(n); }
  void deallocate(T* p, std::size_t n) { std::allocator<T>{}.deallocate(p, n); }
  template <class U> friend bool operator==(const MiniAlloc& a, const MiniAlloc<U, Propagate>& b) { return a.id == b.id; }
  template <class U> friend bool operator!=(const MiniAlloc& a, const MiniAlloc<U, Propagate>& b) { return a.id != b.id; }
};
// empty and declared final (the Allocator requirements allow that, cf. LWG 2112): it cannot serve as a base class
template <class T>
struct FinalAlloc final {
  using value_type = T;
  FinalAlloc() = default;
  template <class U> FinalAlloc(const FinalAlloc<U>&) {}
  T* allocate(std::size_t n) { return std::allocator<T>{}.allocate(n); }
  void deallocate(T* p, std::size_t n) { std::allocator<T>{}.deallocate(p, n); }
  template <class U> friend bool operator==(const FinalAlloc&, const FinalAlloc<U>&) { return true; }
  template <class U> friend bool operator!=(const FinalAlloc&, const FinalAlloc<U>&) { return false; }
};
template <class T> T make(int k) { return vf::Val<T>::make(k); }
template <class T> std::vector<T> make_vec(std::size_t n) { std::vector<T> v; for (std::size_t i = 0; i < n; ++i) v.push_back(vf::Val<T>::make(static_cast<int>(i))); return v; }
}  // namespace c20
'''


def ctor_args(cfg, with_alloc):
    kinds = [k for k, _, _ in cfg['params']]
    nf = kinds.count('f')
    nv = kinds.count('v')
    args = ['4']
    if nv:
        args.append('256')
    if nf:
        args.append('{' + ', '.join(['2'] * nf) + '}')
    if with_alloc:
        args.append('A()')
    return ', '.join(args)


def emplace_args(cfg, form):
    """form: 'rvalue' | 'lvalue' | 'iter' | 'moveiter'"""
    out = []
    pre = []
    prm = cfg['params']
    for i, (k, t, a) in enumerate(prm):
        ct = cg.CTYPE[t]
        if k == 'p':
            if i + 1 < len(prm) and prm[i + 1][0] == 'v':
                out.append('static_cast<%s>(2)' % ct)
            else:
                out.append('c20::make<%s>(%d)' % (ct, i))
        else:
            pre.append('auto r%d = c20::make_vec<%s>(2);' % (i, ct))
            if form == 'rvalue':
                out.append('std::move(r%d)' % i)
            elif form == 'lvalue':
                out.append('r%d' % i)
            elif form == 'iter':
                out.append('r%d.begin()' % i if k == 'f' else 'r%d' % i)
            else:
                out.append('std::make_move_iterator(r%d.begin())' % i if k == 'f' else 'std::move(r%d)' % i)
    return ' '.join(pre), ', '.join(out)


def operations(cfg):
    """returns list of (name, needs, body). needs: set of {'copy','refassign','copyassign'}"""
    n = len(cfg['params'])
    names = ', '.join('f%d' % i for i in range(n))
    pre_r, args_r = emplace_args(cfg, 'rvalue')
    pre_l, args_l = emplace_args(cfg, 'lvalue')
    pre_i, args_i = emplace_args(cfg, 'iter')
    pre_m, args_m = emplace_args(cfg, 'moveiter')
    ca = ctor_args(cfg, True)
    cn = ctor_args(cfg, False)
    mk = 'V v(%s); { %s v.emplace_back(%s); } { %s v.emplace_back(%s); }' % (ca, pre_r, args_r, pre_r, args_r)
    ops = []

    def op(name, body, needs=()):
        ops.append((name, set(needs), body))

    op('default_ctor', 'V v; (void)v.size();')
    op('ctor', 'V v(%s); (void)v.capacity();' % cn)
    op('ctor_alloc', 'V v(%s); (void)v.get_allocator();' % ca)
    op('copy_ctor', mk + ' V w(v); (void)w.size();', ['copy'])
    op('move_ctor', mk + ' V w(std::move(v)); (void)w.size();')
    op('copy_assign', mk + ' V w(%s); w = v; (void)w.size();' % ca, ['copy'])
    op('move_assign', mk + ' V w(%s); w = std::move(v); (void)w.size();' % ca)
    op('emplace_rvalue_range', 'V v(%s); %s v.emplace_back(%s);' % (ca, pre_r, args_r))
    op('emplace_lvalue_range', 'V v(%s); %s v.emplace_back(%s);' % (ca, pre_l, args_l), ['copy'])
    op('emplace_iterator', 'V v(%s); %s v.emplace_back(%s);' % (ca, pre_i, args_i), ['copy'])
    op('emplace_move_iterator', 'V v(%s); %s v.emplace_back(%s);' % (ca, pre_m, args_m))
    op('pop_back', mk + ' v.pop_back();')
    op('erase_position', mk + ' auto it = v.erase(v.begin()); (void)it; auto it2 = v.erase(v.cbegin()); (void)it2;')
    op('erase_range', mk + ' auto it = v.erase(v.begin(), v.end()); (void)it;')
    op('clear', mk + ' v.clear();')
    op('reserve', mk + (' v.reserve(8, 512);' if any(k == 'v' for k, _, _ in cfg['params']) else ' v.reserve(8);'))
    op('swap', mk + ' V w(%s); using std::swap; swap(v, w);' % ca)
    op('observers', mk + ' const V& c = v; (void)c.size(); (void)c.capacity(); (void)c.empty(); (void)c.data_begin(); (void)c.data_end(); (void)v.data_begin(); (void)v.data_end(); (void)c.memory_consumption(); (void)c.get_allocator(); (void)v.front(); (void)v.back(); (void)c.front(); (void)c.back(); (void)c[0]; (void)v[0];')
    nf = [k for k, _, _ in cfg['params']].count('f')
    if nf:
        op('get_fixed_size', mk + ' (void)v.template get_fixed_size<0>();')
    op('compare_vectors', mk + ' const V& c = v; bool b = (c == c) && !(c != c) && !(c < c) && (c <= c) && !(c > c) && (c >= c); (void)b;')
    op('compare_vectors_other_options', mk + ' cntgs::BasicContiguousVector<cntgs::Options<>, VF_PARAMS> w(%s); bool b = (v == w) || (v != w) || (v < w) || (v <= w) || (v > w) || (v >= w); (void)b;' % cn)
    op('compare_references', mk + ' const V& c = v; auto r = v[0]; auto cr = c[1]; bool b = (r == cr) || (cr != r) || (r < cr) || (cr <= r) || (r > r) || (cr >= cr); (void)b;')
    op('compare_element_reference', mk + ' typename V::value_type e(std::move(v[0])); bool b = (e == v[1]) || (v[1] == e) || (e != v[1]) || (v[1] != e) || (e < v[1]) || (v[1] < e) || (e <= v[1]) || (v[1] <= e) || (e > v[1]) || (v[1] > e) || (e >= v[1]) || (v[1] >= e); (void)b;')
    op('compare_elements', mk + ' typename V::value_type e(std::move(v[0])); typename V::value_type g(std::move(v[1])); bool b = (e == g) || (e != g) || (e < g) || (e <= g) || (e > g) || (e >= g); (void)b;')
    op('iterate', mk + ' for (auto&& r : v) { (void)r; } const V& c = v; for (auto&& r : c) { (void)r; } auto it = v.begin(); ++it; --it; it += 1; it -= 1; (void)(it + 1); (void)(it - 1); (void)(v.end() - it); (void)it[0]; (void)(it < v.end()); (void)(*it); (void)it->data_begin(); typename V::const_iterator ci = it; (void)ci;')
    op('structured_binding_reference', mk + ' auto&& [%s] = v[0]; %s' % (names, ' '.join('(void)f%d;' % i for i in range(n))))
    op('structured_binding_const_reference', mk + ' const V& c = v; auto&& [%s] = c[0]; %s' % (names, ' '.join('(void)f%d;' % i for i in range(n))))
    op('structured_binding_element', mk + ' typename V::value_type e(std::move(v[0])); auto&& [%s] = e; %s' % (names, ' '.join('(void)f%d;' % i for i in range(n))))
    # structured bindings of a *const* element are deliberately not required: the property lists bindings of references
    # and elements; std::tuple_element<I, const E> cannot express the const view of a proxy (T& stays T&)
    op('get', mk + ' const V& c = v; (void)cntgs::get<0>(v[0]); (void)cntgs::get<0>(c[0]); typename V::value_type e(std::move(v[0])); (void)cntgs::get<0>(e); const auto& ce = e; (void)cntgs::get<0>(ce); (void)cntgs::get<%d>(std::move(e));' % (n - 1))
    op('ref_assign_copy', mk + ' auto r = v[0]; v[1] = r; const V& c = v; v[1] = c[0];', ['copyassign', 'refassign'])
    op('ref_assign_move', mk + ' v[1] = v[0];', ['refassign'])
    op('ref_swap', mk + ' using std::swap; swap(v[0], v[1]); std::iter_swap(v.begin(), v.begin() + 1);', ['refassign'])
    op('algorithms', mk + ' std::rotate(v.begin(), v.begin() + 1, v.end()); std::reverse(v.begin(), v.end()); std::swap_ranges(v.begin(), v.begin() + 1, v.begin() + 1);', ['refassign'])
    op('ref_assign_element_copy', mk + ' typename V::value_type e(std::move(v[0])); v[1] = e; const auto& ce = e; v[1] = ce;', ['copyassign', 'refassign'])
    op('ref_assign_element_move', mk + ' typename V::value_type e(std::move(v[0])); v[1] = std::move(e);', ['refassign'])
    op('element_assign_reference_copy', mk + ' typename V::value_type e(std::move(v[0])); auto r = v[1]; e = r; const V& c = v; e = c[1];', ['copyassign', 'refassign'])
    op('element_assign_reference_move', mk + ' typename V::value_type e(std::move(v[0])); e = v[1];', ['refassign'])
    op('element_from_const_reference', mk + ' const V& c = v; typename V::value_type e(c[0]); typename V::value_type g(c[0], v.get_allocator()); auto r = v[1]; typename V::value_type h(r); (void)e; (void)g; (void)h;', ['copy'])
    op('element_from_rvalue_reference', mk + ' typename V::value_type e(v[0]); typename V::value_type g(v[1], v.get_allocator()); (void)e; (void)g;')
    op('element_copy', mk + ' typename V::value_type e(std::move(v[0])); typename V::value_type g(e); typename V::value_type h(e, v.get_allocator()); g = e; (void)h;', ['copy'])
    op('element_move', mk + ' typename V::value_type e(std::move(v[0])); typename V::value_type g(std::move(e)); typename V::value_type h(std::move(g), v.get_allocator()); typename V::value_type k(std::move(v[1])); k = std::move(h); (void)k.get_allocator();')
    op('element_swap', mk + ' typename V::value_type e(std::move(v[0])); typename V::value_type g(std::move(v[1])); using std::swap; swap(e, g);')
    op('reference_conversions', mk + ' const V& c = v; typename V::const_reference cr(v[0]); typename V::value_type e(std::move(v[1])); typename V::reference r(e); const auto& ce = e; typename V::const_reference cre(ce); (void)cr; (void)r; (void)cre; (void)c;')
    return ops


def required(cfg, needs):
    ts = [t for _, t, _ in cfg['params']]
    copyable = not (set(ts) & cg.MOVE_ONLY)
    refassign = all(not (k == 'v' and t not in cg.TRIVIAL) for k, t, _ in cfg['params'])
    if ('copy' in needs or 'copyassign' in needs) and not copyable:
        return False
    if 'refassign' in needs and not refassign:
        return False
    return True


def emit(cfg, alloc_key):
    plist = ', '.join(cg.param_cpp(x) for x in cfg['params'])
    ops = operations(cfg)
    out = ['// generated by gen/units_c20.py', '#ifndef VF_OP', '#define VF_OP 0', '#endif', PRELUDE,
           '#define VF_PARAMS %s' % plist,
           'using A = %s;' % ALLOCS[alloc_key],
           'using V = cntgs::BasicContiguousVector<cntgs::Options<cntgs::Allocator<A>>, VF_PARAMS>;']
    table = []
    k = 0
    for name, needs, body in ops:
        k += 1
        req = required(cfg, needs)
        table.append((k, name, req))
        if not req:
            continue
        out.append('#if VF_OP == %d || VF_OP == 0' % k)
        out.append('void op_%s() { %s }' % (name, body))
        out.append('#endif')
    return '\n'.join(out) + '\n', table
