#!/usr/bin/env python3
"""Parameter-list (configuration) generator: curated core pool + seeded random lists from a grammar.

A configuration is a dict {name, params:[(kind, type, align)], alloc:(pocca,pocma,pocs,ae), tags:set}.
kind: 'p' plain, 'f' FixedSize, 'v' VaryingSize (must be preceded by a plain integral count parameter).
"""
import random

CTYPE = {
    'u8': 'uint8_t', 'i8': 'int8_t', 'char': 'char', 'byte': 'std::byte', 'bool': 'bool', 'u16': 'uint16_t',
    'u32': 'uint32_t', 'i32': 'int32_t', 'u64': 'uint64_t', 'sz': 'std::size_t', 'float': 'float',
    'double': 'double', 'cptr': 'const int*', 'E8': 'vf::E8', 'E32': 'vf::E32', 'B3': 'vf::B3', 'B5': 'vf::B5',
    'B12': 'vf::B12', 'B24': 'vf::B24', 'Tracked': 'vf::Tracked', 'TrackedMO': 'vf::TrackedMO',
    'string': 'std::string', 'uptr': 'std::unique_ptr<int>', 'SelfRef': 'vf::SelfRef', 'Handle': 'vf::Handle',
    'Stamped': 'vf::Stamped', 'Cloned': 'vf::Cloned', 'MvStamped': 'vf::MvStamped', 'CpStamped': 'vf::CpStamped',
}
SIZEOF = {'u8': 1, 'i8': 1, 'char': 1, 'byte': 1, 'bool': 1, 'u16': 2, 'u32': 4, 'i32': 4, 'u64': 8, 'sz': 8,
          'float': 4, 'double': 8, 'cptr': 8, 'E8': 1, 'E32': 4, 'B3': 3, 'B5': 5, 'B12': 12, 'B24': 24,
          'Tracked': 16, 'TrackedMO': 16, 'string': 32, 'uptr': 8, 'SelfRef': 16, 'Handle': 8, 'Stamped': 8, 'Cloned': 8, 'MvStamped': 8, 'CpStamped': 8}
TRIVIAL = {'u8', 'i8', 'char', 'byte', 'bool', 'u16', 'u32', 'i32', 'u64', 'sz', 'float', 'double', 'cptr', 'E8',
           'E32', 'B3', 'B5', 'B12', 'B24', 'Handle'}
MOVE_ONLY = {'TrackedMO', 'uptr', 'Handle'}
COUNT_TYPES = ['u8', 'u16', 'u32', 'sz']
# types for which the library's memcmp fast paths apply (integral, byte, pointer)
MEMCMP_EQ = {'u8', 'i8', 'char', 'byte', 'bool', 'u16', 'u32', 'i32', 'u64', 'sz', 'cptr'}
MEMCMP_LEX = {'u8', 'char', 'byte'}  # unsigned byte types (char is unsigned? no: treated by the library via T(-1)>T(1))


def p(t, a=1): return ('p', t, a)
def f(t, a=1): return ('f', t, a)
def v(t, a=1): return ('v', t, a)


STD = (False, False, False, False)  # stateful, nothing propagates


def param_cpp(prm):
    kind, t, a = prm
    inner = CTYPE[t] if a == 1 else 'cntgs::AlignAs<%s, %d>' % (CTYPE[t], a)
    if kind == 'p':
        return inner
    if kind == 'f':
        return 'cntgs::FixedSize<%s>' % inner
    return 'cntgs::VaryingSize<%s>' % inner


def param_tag(prm):
    kind, t, a = prm
    s = {'p': '', 'f': 'F', 'v': 'V'}[kind] + t
    if a != 1:
        s += 'a%d' % a
    return s


def alloc_tag(alloc):
    pocca, pocma, pocs, ae = alloc
    return 'A%d%d%d%d' % (pocca, pocma, pocs, ae)


def make(params, alloc=STD, tags=()):
    name = '_'.join(param_tag(x) for x in params) + '__' + alloc_tag(alloc)
    return {'name': name, 'params': list(params), 'alloc': tuple(alloc), 'tags': set(tags)}


def valid(params):
    if not params or len(params) > 8:
        return False
    for i, (kind, t, a) in enumerate(params):
        if kind == 'v':
            if i == 0:
                return False
            pk, pt, pa = params[i - 1]
            if pk != 'p' or pt not in COUNT_TYPES + ['u64']:
                return False
            if t == 'byte':
                # D13: the library classifies std::byte as not trivially swappable (std::swap is found by ADL), and
                # ParameterTraits<VaryingSize<...>> offers no swap: reference swap is outside such a list's domain
                return False
    return True


def descr(cfg):
    return ', '.join(param_cpp(x) for x in cfg['params']) + ' | allocator ' + alloc_tag(cfg['alloc'])


def category(cfg):
    kinds = {k for k, _, _ in cfg['params']}
    has_v, has_f = 'v' in kinds, 'f' in kinds
    cat = 'mixed' if (has_v and has_f) else 'varying' if has_v else 'fixed' if has_f else 'plain'
    aligned = any(a > 1 for _, _, a in cfg['params'])
    triv = all(t in TRIVIAL for _, t, _ in cfg['params'])
    nontriv = all(t not in TRIVIAL for k, t, _ in cfg['params'] if not (k == 'p' and t in COUNT_TYPES))
    vt = 'trivial' if triv else ('nontrivial' if nontriv else 'mixedtypes')
    return '%s/%s/%s' % (cat, 'aligned' if aligned else 'unaligned', vt)


# ---------------------------------------------------------------------------------------------------------------
# curated core
# ---------------------------------------------------------------------------------------------------------------
def core_pool():
    c = []
    # lists the repository's own suite uses
    c.append(make([p('u32'), p('float')], tags={'suite', 'plain'}))
    c.append(make([p('u32'), p('sz', 8), v('float')], tags={'suite', 'layout'}))
    c.append(make([p('u32'), p('sz', 8), v('float'), p('sz', 8), v('float')], tags={'suite', 'layout'}))
    c.append(make([p('u32'), f('float')], tags={'suite'}))
    c.append(make([f('float'), p('u32'), f('float')], tags={'suite'}))
    c.append(make([f('float'), p('u32'), p('sz', 8), v('float')], tags={'suite', 'layout'}))
    c.append(make([f('uptr'), p('uptr')], tags={'suite', 'nontrivial'}))
    c.append(make([p('sz', 8), v('uptr'), p('uptr')], tags={'suite', 'nontrivial'}))
    c.append(make([p('char'), p('u32', 8)], tags={'suite', 'layout'}))
    c.append(make([p('sz', 8), v('float', 16), p('u32')], tags={'suite', 'layout'}))
    c.append(make([p('u32'), p('sz', 8), v('float', 8), p('sz', 8), v('float', 16)], tags={'suite', 'layout'}))
    c.append(make([p('u32'), f('float', 32)], tags={'suite', 'layout'}))
    c.append(make([f('float', 8), p('u32', 16), f('float')], tags={'suite', 'layout'}))
    c.append(make([f('float', 32), f('u32'), p('u32')], tags={'suite', 'layout'}))
    c.append(make([f('float', 16), p('u32'), p('sz', 8), v('float', 8)], tags={'suite', 'layout'}))
    c.append(make([f('string'), p('string')], tags={'suite', 'nontrivial'}))
    c.append(make([p('sz', 8), v('string'), p('string')], tags={'suite', 'nontrivial'}))
    # low-alignment varying lists: varying sizes change the element's byte extent (generator-health lesson)
    c.append(make([p('u8'), v('u8')], tags={'layout', 'lowalign', 'memcmp'}))
    c.append(make([p('u8'), v('u8'), p('u16')], tags={'layout', 'lowalign', 'memcmp'}))
    c.append(make([p('u16'), v('B3'), p('u8')], tags={'layout', 'lowalign'}))
    c.append(make([p('u8'), v('u16'), p('u8'), v('B5')], tags={'layout', 'lowalign'}))
    c.append(make([p('u32'), v('u8'), f('u16')], tags={'layout', 'lowalign', 'memcmp'}))
    # low-aligned span followed by higher-aligned plain/fixed fields
    c.append(make([p('u8'), v('u8'), p('u32', 4)], tags={'layout', 'risky'}))
    c.append(make([p('u8'), v('B3'), p('u64', 8), f('u16', 2)], tags={'layout', 'risky'}))
    c.append(make([p('u16'), v('u8'), f('double', 16)], tags={'layout', 'risky'}))
    c.append(make([p('u8'), v('u8', 2), p('u8'), v('u32', 4), p('u8')], tags={'layout', 'risky'}))
    c.append(make([p('u32', 2), v('B5'), p('float', 8)], tags={'layout', 'risky'}))
    c.append(make([f('u8'), p('u8'), v('u16', 4), p('B3'), f('u32', 8)], tags={'layout', 'risky'}))
    # alignment larger / smaller than alignof(T), non-monotone
    c.append(make([p('u8', 16), f('u8'), p('u8', 4)], tags={'layout'}))
    c.append(make([f('B3', 4), p('u64', 2), f('B5', 8)], tags={'layout'}))
    c.append(make([p('double', 4), f('u16', 16), p('u8')], tags={'layout'}))
    c.append(make([p('u8', 64), f('u32')], tags={'layout'}))
    # all-plain and fixed variants with odd sizes
    c.append(make([p('B3'), p('u8'), p('B5')], tags={'plain', 'layout'}))
    c.append(make([p('u8'), p('u16'), p('u8'), p('u32')], tags={'plain', 'memcmp'}))
    c.append(make([f('u8'), f('u8')], tags={'memcmp'}))
    c.append(make([f('u8'), p('u8', 4), f('u8')], tags={'memcmp', 'layout'}))  # memcmp-able with padding
    c.append(make([p('u8'), p('u32', 4)], tags={'memcmp', 'layout', 'plain'}))    # padding between plain fields
    c.append(make([p('cptr'), f('i32'), p('bool')], tags={'memcmp'}))
    c.append(make([p('char'), f('byte'), p('u8')], tags={'memcmp'}))
    c.append(make([f('double'), p('float')], tags={'generic'}))
    c.append(make([p('E8'), f('E32'), p('i8')], tags={'generic'}))
    # tracked (instrumented) types in every position kind
    c.append(make([p('Tracked')], tags={'tracked', 'plain', 'nontrivial'}))
    c.append(make([f('Tracked'), p('u8')], tags={'tracked', 'nontrivial'}))
    c.append(make([p('u8'), f('Tracked', 8), p('Tracked')], tags={'tracked', 'nontrivial', 'layout'}))
    c.append(make([p('u8'), v('Tracked')], tags={'tracked', 'nontrivial', 'lowalign'}))
    c.append(make([p('u8'), v('Tracked'), p('u16'), f('Tracked')], tags={'tracked', 'nontrivial', 'lowalign'}))
    c.append(make([p('u8'), v('u8'), p('Tracked')], tags={'tracked', 'nontrivial', 'lowalign'}))
    c.append(make([p('u16'), v('Tracked', 8), p('u32', 4)], tags={'tracked', 'nontrivial', 'layout'}))
    c.append(make([f('TrackedMO'), p('TrackedMO')], tags={'tracked', 'nontrivial', 'moveonly'}))
    c.append(make([p('u8'), v('TrackedMO'), p('u8')], tags={'tracked', 'nontrivial', 'moveonly', 'lowalign'}))
    c.append(make([p('u32'), f('Tracked'), p('float'), f('u8'), p('Tracked')], tags={'tracked', 'nontrivial', 'runs'}))
    c.append(make([p('Tracked'), p('u8'), p('u16'), p('Tracked'), p('u8')], tags={'tracked', 'nontrivial', 'runs', 'plain'}))
    c.append(make([f('u8'), f('string'), f('u16'), p('u8')], tags={'nontrivial', 'runs'}))
    c.append(make([p('u8'), v('string')], tags={'nontrivial', 'lowalign'}))
    # an aligned first parameter: its alignment rests on the element start, which relocation must keep aligned
    c.append(make([p('Tracked', 8), p('u8'), v('u8')], tags={'tracked', 'nontrivial', 'layout', 'alignedfirst'}))
    c.append(make([p('uptr', 8), p('u32'), v('char')], tags={'nontrivial', 'layout', 'alignedfirst', 'moveonly'}))
    c.append(make([p('u32', 4), p('u8'), v('Tracked')], tags={'tracked', 'nontrivial', 'layout', 'alignedfirst'}))
    c.append(make([f('string', 8), p('u16'), v('u16', 2)], tags={'nontrivial', 'layout', 'alignedfirst'}))
    # alignment that is statically guaranteed by the sizes in front of it (assumed, not made), and stride padding of
    # all-fixed lists with odd / even fixed sizes
    c.append(make([f('u16', 8), p('u32'), p('u32', 4)], tags={'layout', 'fixedlayout'}))
    c.append(make([f('u32'), f('double', 8)], tags={'layout', 'fixedlayout'}))
    c.append(make([p('char'), f('u16', 2), p('u64', 8)], tags={'layout', 'fixedlayout'}))
    c.append(make([p('u16', 8), p('u64', 8)], tags={'layout', 'fixedlayout', 'memcmp'}))
    c.append(make([f('u16', 4), p('u32', 4)], tags={'layout', 'fixedlayout', 'memcmp'}))
    # trivially destructible but not trivially relocatable (self pointer), and move-only but trivially movable types:
    # the conditions that choose bytewise relocation / copy vs. move paths treat them differently from std::string
    c.append(make([p('u8'), v('SelfRef')], tags={'nontrivial', 'lowalign', 'selfref'}))
    c.append(make([f('SelfRef'), p('u16')], tags={'nontrivial', 'selfref'}))
    c.append(make([p('SelfRef', 8), p('u8'), v('u16')], tags={'nontrivial', 'layout', 'alignedfirst', 'selfref'}))
    # value types with a user-provided assignment operator but trivial copy construction / destruction, next to
    # trivially assignable fields (the runs that reference assignment memmoves and swap exchanges bytewise)
    c.append(make([p('i32'), p('Stamped'), f('Stamped')], tags={'nontrivial', 'stamped'}))
    c.append(make([f('Stamped'), p('u32'), p('Stamped'), p('u8')], tags={'nontrivial', 'stamped'}))
    c.append(make([p('Stamped', 8), p('u8'), v('u16'), f('Stamped')], tags={'nontrivial', 'stamped', 'layout', 'alignedfirst'}))
    # trivial copy assignment with a user-provided move assignment, and the reverse: the bytewise-assignable runs of
    # copy and of move assignment differ (next to trivially assignable neighbours, so that a run exists either way)
    c.append(make([p('u32'), p('MvStamped'), p('u16'), f('MvStamped')], tags={'nontrivial', 'stamped', 'asym'}))
    c.append(make([f('CpStamped'), p('u32'), p('CpStamped'), p('u8')], tags={'nontrivial', 'stamped', 'asym'}))
    c.append(make([p('MvStamped'), p('CpStamped'), p('u8'), v('u16')], tags={'nontrivial', 'stamped', 'asym'}))
    # user-provided copy constructor, trivial move constructor and destructor
    c.append(make([p('Cloned'), p('u8')], tags={'nontrivial', 'cloned', 'plain'}))
    c.append(make([f('Cloned'), p('u32'), f('u8')], tags={'nontrivial', 'cloned'}))
    c.append(make([p('u8'), v('Cloned'), p('Cloned', 8)], tags={'nontrivial', 'cloned', 'lowalign', 'layout'}))
    c.append(make([f('bool'), p('i32')], tags={'memcmp', 'lowalign'}))
    c.append(make([f('bool'), p('float'), p('u8'), v('bool')], tags={'memcmp', 'lowalign'}))
    # runs of byte-comparable fields around FixedSize / VaryingSize spans (what the comparison fast paths coalesce)
    c.append(make([f('u8'), p('u8'), f('u8')], tags={'memcmp', 'lowalign'}))
    c.append(make([f('u8'), p('u8'), v('u8')], tags={'memcmp', 'lowalign'}))
    c.append(make([f('u16'), p('u16'), p('u16'), f('u16')], tags={'memcmp', 'lowalign'}))
    # alignment-inference chains (see random_list 'chain')
    c.append(make([p('u8'), v('u8'), p('u64'), v('u64'), p('u64', 8)], tags={'layout', 'chain'}))
    c.append(make([p('u64', 8), v('u8'), p('u64'), v('u64')], tags={'layout', 'chain', 'alignedfirst'}))
    c.append(make([p('u32'), v('float'), p('u64'), p('u64', 8)], tags={'layout', 'chain'}))
    c.append(make([p('Handle'), p('i32')], tags={'moveonly', 'plain', 'handle'}))
    c.append(make([p('Handle'), p('string')], tags={'moveonly', 'nontrivial', 'plain', 'handle'}))
    c.append(make([p('u8'), v('Handle'), f('Tracked')], tags={'moveonly', 'nontrivial', 'tracked', 'lowalign', 'handle'}))
    # an odd-sized aligned type as the last plain parameter (the stride must still be padded to the alignment), and an
    # 8-byte type with a smaller alignment in front of a more aligned one
    c.append(make([p('u32', 8), p('B12', 8)], tags={'layout', 'fixedlayout'}))
    c.append(make([f('u16'), p('B24', 16)], tags={'layout', 'fixedlayout'}))
    c.append(make([p('u8'), p('B3', 2)], tags={'layout', 'fixedlayout'}))
    c.append(make([p('u32', 16), p('double', 4), p('u64', 8)], tags={'layout', 'fixedlayout'}))
    c.append(make([p('u32', 8), p('u8'), v('u64', 8), p('u32', 4), p('double', 4)], tags={'layout', 'risky'}))
    c.append(make([p('u32'), v('double', 8), p('u32')], tags={'layout', 'risky'}))
    c.append(make([p('u32'), v('float'), f('double', 8)], tags={'layout', 'risky'}))
    # an aligned VaryingSize span whose alignment does not exceed that of its (unaligned, packed) count parameter, with
    # the count ending off the alignment grid: behind an odd-sized parameter, behind a span of odd byte length
    c.append(make([p('u8'), p('u32'), v('float', 4)], tags={'layout', 'risky', 'countalign'}))
    c.append(make([p('u32'), v('char'), p('u32'), v('float', 4)], tags={'layout', 'risky', 'countalign'}))
    c.append(make([f('u8'), p('u16'), v('u16', 2), p('u8')], tags={'layout', 'risky', 'countalign'}))
    c.append(make([p('B3'), p('sz'), v('double', 8), p('Tracked')], tags={'layout', 'risky', 'countalign', 'tracked', 'nontrivial'}))
    return c


def grid_pool():
    """systematic family for the stride / padding formulas of plain+FixedSize lists (thorough tier of C02-C05):
    every combination of (kind, kind) x (first type, alignment) x (second type, alignment), half of them with a tail"""
    out = []
    i = 0
    for k1, k2 in (('f', 'f'), ('f', 'p'), ('p', 'f')):
        for t1, a1 in (('u16', 1), ('u16', 8), ('u32', 1), ('u8', 4)):
            for t2, a2 in (('double', 8), ('u32', 4), ('u16', 2)):
                prm = [(k1, t1, a1), (k2, t2, a2)]
                if i % 2:
                    prm.append(('p', 'u8', 1))
                i += 1
                out.append(make(prm, STD, tags={'grid', 'layout', 'fixedlayout'}))
    return out


ALLOC_MATRIX = [(a, b, c, d) for d in (False, True) for a in (False, True) for b in (False, True) for c in (False, True)]


def allocator_pool():
    """C08 family: 5 representative lists x 16 trait combinations."""
    lists = [
        [p('u32'), p('u8')],
        [f('Tracked'), p('u8')],
        [p('u8'), v('u16')],
        [p('u8'), v('Tracked'), p('u8')],
        [f('u8'), p('u8'), v('u32', 4), p('Tracked', 8)],
    ]
    out = []
    for l in lists:
        for al in ALLOC_MATRIX:
            out.append(make(l, al, tags={'allocmatrix'}))
    return out


# ---------------------------------------------------------------------------------------------------------------
# random lists from the grammar
# ---------------------------------------------------------------------------------------------------------------
TRIV_POOL = ['u8', 'i8', 'char', 'byte', 'bool', 'u16', 'u32', 'i32', 'u64', 'float', 'double', 'cptr', 'E8', 'E32',
             'B3', 'B5', 'B12', 'B24', 'Handle']
NONTRIV_POOL = ['Tracked', 'Tracked', 'TrackedMO', 'string', 'uptr', 'SelfRef', 'Stamped', 'Cloned']
ALIGNS = [2, 4, 8, 16, 32, 64]


def random_list(rng, flavour):
    """flavour: 'layout' (trivial, alignment heavy, with varying), 'fixedlayout' (plain/FixedSize only: stride and
    padding formulas), 'alignedfirst' (an aligned - possibly non-trivial - first parameter whose alignment rests on
    the element start, followed by spans), 'tracked', 'any'."""
    while True:
        params = []
        if flavour == 'fixedlayout':
            n = rng.randint(2, 4)
            for _ in range(n):
                t = rng.choice(['u8', 'u16', 'u16', 'u32', 'u32', 'u64', 'double', 'B3', 'B5', 'B12', 'float'])
                a = rng.choice([2, 4, 8, 8, 16]) if rng.random() < 0.55 else 1
                params.append(('f' if rng.random() < 0.6 else 'p', t, a))
        elif flavour == 'alignedfirst':
            t0 = rng.choice(['Tracked', 'uptr', 'string', 'u32', 'u64', 'double', 'TrackedMO'])
            params.append((rng.choice(['p', 'p', 'f']), t0, rng.choice([4, 8, 8, 16])))
            for _ in range(rng.randint(1, 3)):
                r = rng.random()
                t = rng.choice(['u8', 'char', 'u16', 'B3', 'u32', 'Tracked', 'string'])
                a = rng.choice([2, 4, 8]) if rng.random() < 0.3 else 1
                if r < 0.3:
                    params.append(('p', t, a))
                elif r < 0.5:
                    params.append(('f', t, a))
                else:
                    params.append(('p', rng.choice(COUNT_TYPES), 1))
                    params.append(('v', t, a))
        elif flavour == 'bytes':
            # unaligned lists of byte-comparable types only: equality / ordering may compare whole runs of fields (or
            # whole elements / vectors) bytewise, so run boundaries around spans of run-time length matter
            n = rng.randint(2, 5)
            t0 = rng.choice(['u8', 'u8', 'char', 'u16', 'i8', 'bool', 'u32'])
            for _ in range(n):
                t = t0 if rng.random() < 0.7 else rng.choice(['u8', 'char', 'u16', 'i8', 'bool', 'u32', 'cptr'])
                r = rng.random()
                if r < 0.4:
                    params.append(('p', t, 1))
                elif r < 0.75:
                    params.append(('f', t, 1))
                else:
                    params.append(('p', rng.choice(['u8', 'u16', 'u32']), 1))
                    params.append(('v', t, 1))
        elif flavour == 'chain':
            # alignment-inference chains: an aligned head fixes the element alignment A, a run-time sized span of small
            # items lowers what is known about the address, parameters whose size is a multiple of A keep that
            # knowledge unchanged, a second span of A-sized items (count of the same size) may restore it, and an
            # aligned tail needs the right (static or run-time) padding in front of it
            A = rng.choice([4, 8, 8, 8, 16])
            mult = {4: ['u32', 'float', 'B12', 'i32', 'u64'], 8: ['u64', 'double', 'sz', 'B24', 'cptr'], 16: ['SelfRef', 'B24', 'u64']}[A]
            exact = {4: ['u32', 'float', 'i32'], 8: ['u64', 'double', 'sz'], 16: ['SelfRef']}[A]
            if rng.random() < 0.6:
                params.append((rng.choice(['p', 'p', 'f']), rng.choice(exact), A))
            params.append(('p', rng.choice(COUNT_TYPES + ['sz']), 1))
            params.append(('v', rng.choice(['u8', 'u16', 'B3', 'char', 'float', 'u32']), rng.choice([1, 1, 1, 2, 4])))
            for _ in range(rng.randint(0, 2)):
                params.append(('p', rng.choice(mult), 1))
            if rng.random() < 0.5:
                params.append(('p', 'sz' if A >= 8 else 'u32', 1))
                params.append(('v', rng.choice(exact), rng.choice([1, 1, A])))
                if rng.random() < 0.4:
                    params.append(('p', rng.choice(mult), 1))
            if rng.random() < 0.8 or params[0][2] == 1:
                params.append((rng.choice(['p', 'p', 'f']), rng.choice(exact), A))
        else:
            n = rng.randint(1, 5)
            for _ in range(n):
                r = rng.random()
                if flavour == 'tracked':
                    t = rng.choice(NONTRIV_POOL[:3]) if rng.random() < 0.5 else rng.choice(TRIV_POOL)
                elif flavour == 'layout':
                    t = rng.choice(['u8', 'u8', 'u16', 'B3', 'B5', 'u32', 'B12', 'u64', 'float', 'double', 'B24'])
                else:
                    t = rng.choice(NONTRIV_POOL) if rng.random() < 0.25 else rng.choice(TRIV_POOL)
                a = 1
                if rng.random() < (0.5 if flavour == 'layout' else 0.35):
                    a = rng.choice(ALIGNS if flavour == 'layout' else ALIGNS[:4])
                if r < 0.4:
                    params.append(('p', t, a))
                elif r < 0.65:
                    params.append(('f', t, a))
                else:
                    ct = rng.choice(COUNT_TYPES)
                    ca = rng.choice([1, 1, 1, 2, 4, 8]) if flavour == 'layout' else 1
                    params.append(('p', ct, ca))
                    params.append(('v', t, a))
        if valid(params) and len(params) <= 7:
            return params


FLAVOURS = ['layout', 'fixedlayout', 'tracked', 'alignedfirst', 'layout', 'any', 'chain', 'bytes']


def random_pool(seed, count):
    rng = random.Random(seed)
    out, seen = [], set()
    i = 0
    while len(out) < count:
        fl = FLAVOURS[i % len(FLAVOURS)]
        i += 1
        prm = random_list(rng, fl)
        tags = {'random', fl}
        if fl in ('layout', 'fixedlayout', 'alignedfirst', 'chain'):
            tags.add('layout')
        cfg = make(prm, STD, tags=tags)
        ts = {t for _, t, _ in prm}
        if ts & {'Tracked', 'TrackedMO'}:
            cfg['tags'].add('tracked')
        if not ts <= TRIVIAL:
            cfg['tags'].add('nontrivial')
        if ts & MOVE_ONLY:
            cfg['tags'].add('moveonly')
        if cfg['name'] in seen:
            continue
        seen.add(cfg['name'])
        out.append(cfg)
    return out


# ---------------------------------------------------------------------------------------------------------------
# TU emission
# ---------------------------------------------------------------------------------------------------------------
def emit_tu(cfg, header='runner_all.hpp'):
    plist = ', '.join(param_cpp(x) for x in cfg['params'])
    n = len(cfg['params'])
    names = ', '.join('f%d' % i for i in range(n))
    decls = ', '.join('decltype(f%d)' % i for i in range(n))
    al = ', '.join('true' if x else 'false' for x in cfg['alloc'])
    return '''// generated by gen/configs.py -- do not edit
#include "%(header)s"
namespace {
struct Cfg {
  using LI = vf::ListInfo<%(plist)s>;
  using K = vf::LK<%(al)s>;
  template <class A> using VecT = cntgs::BasicContiguousVector<cntgs::Options<cntgs::Allocator<A>>, %(plist)s>;
  template <class R> static auto sb(R&& r) { auto&& [%(names)s] = r; return std::tuple<%(decls)s>(%(names)s); }
};
}  // namespace
vf::ConfigEntry& vf::the_config() {
  static vf::ConfigEntry e{"%(name)s", "%(descr)s", &vf::run_config<Cfg>, vf::caps_of<Cfg>()};
  return e;
}
''' % dict(header=header, plist=plist, al=al, names=names, decls=decls, name=cfg['name'], descr=descr(cfg))


def emit_tu_c19(cfg, racy=False):
    plist = ', '.join(param_cpp(x) for x in cfg['params'])
    vec = ('cntgs::BasicContiguousVector<cntgs::Options<cntgs::Allocator<c19::RacyAlloc<std::byte>>>, %s>' % plist) if racy \
        else ('cntgs::ContiguousVector<%s>' % plist)
    return '''// generated by gen/configs.py (C19) -- do not edit
#include "c19.hpp"
namespace {
using LI = vf::ListInfo<%(plist)s>;
using Vec = %(vec)s;
}  // namespace
c19::Entry& c19::the_entry() {
  static c19::Entry e{"%(name)s", "%(descr)s", LI::ALL_COPYABLE, &c19::Runner<LI, Vec>::run};
  return e;
}
''' % dict(plist=plist, vec=vec, name=cfg['name'] + ('+racyalloc' if racy else ''), descr=descr(cfg) + (' | allocator with unsynchronised state (copies via select_on_container_copy_construction are stateless)' if racy else ''))


def parse_name(name):
    """inverse of make(): rebuild a configuration from its name (replay files carry only the name)."""
    body, al = name.rsplit('__', 1)
    alloc = tuple(ch == '1' for ch in al[1:5])
    params = []
    for tok in body.split('_'):
        kind = 'p'
        if tok[0] == 'F' or tok[0] == 'V':
            # careful: type names never start with F or V
            kind = {'F': 'f', 'V': 'v'}[tok[0]]
            tok = tok[1:]
        a = 1
        import re
        m = re.match(r'^(.*?)a(\d+)$', tok)
        if m and m.group(1) in CTYPE:
            tok, a = m.group(1), int(m.group(2))
        params.append((kind, tok, a))
    return make(params, alloc)


if __name__ == '__main__':
    import sys
    pool = core_pool() + allocator_pool() + random_pool(int(sys.argv[1]) if len(sys.argv) > 1 else 1, 16)
    for c in pool:
        assert valid(c['params']), c['name']
        assert parse_name(c['name'])['params'] == c['params'], c['name']
        print('%-60s %-28s %s' % (c['name'], category(c), sorted(c['tags'])))
