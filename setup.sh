#!/bin/sh
# MANIFEST.setup_cmd: warm the build cache (engine + every configuration of the quick tier) from files on disk only.
set -e
cd "$(dirname "$0")"
python3 driver/warm.py
