#!/bin/sh
# usage: eval_round.sh <mutant root, e.g. /tmp/mut> <prefix of worktree dirs, e.g. D> <result dir>
# evaluates <root>/<prefix>NN/mutant{1,2} against the quick check of property CNN, sequentially
ROOT=$1; PFX=$2; OUT=$3
HERE=$(dirname "$0")
mkdir -p "$OUT"
for i in 01 02 03 04 05 06 07 08 09 10 11 12 13 14 15 16 17 18 19 20; do
  for k in 1 2; do
    d=$ROOT/$PFX$i/mutant$k
    [ -f "$d/patch.diff" ] || continue
    out=$OUT/C${i}_$k.json
    [ -s "$out" ] && continue
    flags="-fsanitize=address,undefined"; [ $i = 19 ] && flags="-fsanitize=thread"
    python3 "$HERE/eval_mutant.py" "$d" C$i --demo-flags="$flags" ${FALLBACK_BASE:+--fallback-base $FALLBACK_BASE} > "$out" 2>&1
  done
done
echo ALLDONE > "$OUT/DONE"
