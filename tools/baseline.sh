#!/bin/sh
# Rebuild the repository's own test suite (guard off: there are no hooks) and run it as in /root/.vp/BASELINE.json.
# The two example targets that do not build on the pinned tree are not part of the 113 stable tests.
ninja -C /repo/_build -k 0 >/tmp/baseline_build.log 2>&1
ctest --test-dir /repo/_build -j8 --timeout 900 >/tmp/baseline_ctest.log 2>&1
grep -E "tests passed|tests failed" /tmp/baseline_ctest.log
FAILED=$(grep -E "^\s+[0-9]+ - " /tmp/baseline_ctest.log | grep -v -E "cntgs-example-varying-vector|cntgs-example-vector-with-alignment" | wc -l)
echo "unexpected failures: $FAILED"
[ "$FAILED" = "0" ]
