#!/bin/sh
# usage: eval_round.sh <mutant root, e.g. /tmp/mut> <prefix of worktree dirs, e.g. D> <result dir>
# evaluates <root>/<prefix>NN/mutant{1,2} against the quick check of property CNN, sequentially
ROOT=$1; PFX=$2; OUT=$3
HERE=$(dirname "$0")
mkdir -p "$OUT"
for i in 20 19 18 17 16 15 14 13 12 11 10 09 08 07; do
  for k in 1 2; do
    d=$ROOT/$PFX$i/mutant$k
    [ -f "$d/patch.diff" ] || continue
    out=$OUT/C${i}_$k.json
    [ -s "$out" ] && continue
    flags="-fsanitize=address,undefined"; [ $i = 19 ] && flags="-fsanitize=thread"
    python3 "$HERE/eval_mutant.py" "$d" C$i --demo-flags="$flags" ${FALLBACK_BASE:+--fallback-base $FALLBACK_BASE} > "$out" 2>&1
  done
done
echo ALLDONE > "$OUT/DONE_rev"
