#!/usr/bin/env python3
"""Markdown table of the seeded changes with a given directory prefix (seeded/<prefix>*): what each needs, first-pass
result of the quick check of its property, re-runs after strengthening. usage: seeded_table.py r3-"""
import glob
import json
import os
import sys

ROOT = os.path.dirname(os.path.dirname(os.path.abspath(__file__)))
prefix = sys.argv[1]


def cell(name, r):
    if r['exit'] == 1 and r['violations'] > 0:
        first = r['first'][0] if r['first'] else ''
        code = first.split(': ')[-1] if ': ' in first else first
        return '%s: caught (%d cfg; e.g. %s)' % (name, r['violations'], code[:60])
    return '%s: MISSED' % name


print('| change | what it needs to manifest | quick check of its property (first pass) | re-runs after strengthening |')
print('|---|---|---|---|')
first_caught = total = final_own = 0
for d in sorted(glob.glob(os.path.join(ROOT, 'seeded', prefix + '*'))):
    m = json.load(open(os.path.join(d, 'meta.json')))
    pid = m['property']
    runs = m.get('check_runs', {})
    fp = runs.get(pid + ' quick')
    re_ = [(k.split()[0], v) for k, v in runs.items() if not k.endswith(' quick')]
    total += 1
    fpc = bool(fp and fp['exit'] == 1 and fp['violations'] > 0)
    first_caught += fpc
    own = fpc or any(c == pid and v['exit'] == 1 and v['violations'] > 0 for c, v in re_)
    final_own += own
    print('| %s | %s | %s | %s |' % (os.path.basename(d), m['what_it_needs_to_manifest'][:170].replace('|', '/'),
                                   cell(pid, fp).split(': ', 1)[1] if fp else 'not run', '; '.join(cell(c, v) for c, v in re_)))
print()
print('first pass caught %d of %d; caught by the check of their own property after strengthening: %d' % (first_caught, total, final_own))
