#!/bin/sh
# run every check of a tier on the current tree; summary on stdout
TIER=${1:-quick}
cd /verif
for p in C01 C02 C03 C04 C05 C06 C07 C08 C09 C10 C11 C12 C13 C14 C15 C16 C17 C18 C19 C20; do
  s=$(date +%s)
  out=$(./check $p --tier $TIER 2>&1)
  rc=$?
  e=$(date +%s)
  echo "$p rc=$rc $((e-s))s | $(echo "$out" | grep -E 'VIOLATION|KNOWN|held|no race|compiled|INCONCL|FLAKY|Traceback|Error' | head -4 | tr '\n' ' ')"
done
