#!/usr/bin/env python3
"""Re-run, for every kept seeded change, the checks that detected it (seeded/<id>/meta.json: check_runs) against the
current machinery; prints one line per change and a summary. Results go to <outdir>/<id>.json.
usage: recheck_seeded.py <outdir> [id-prefix|-] [shard nshards]"""
import json
import os
import subprocess
import sys

ROOT = os.path.dirname(os.path.dirname(os.path.abspath(__file__)))
out = sys.argv[1]
prefix = sys.argv[2] if len(sys.argv) > 2 and sys.argv[2] != '-' else ''
shard, nshards = (int(sys.argv[3]), int(sys.argv[4])) if len(sys.argv) > 4 else (0, 1)
os.makedirs(out, exist_ok=True)
missed = []
for idx, d in enumerate(sorted(os.listdir(os.path.join(ROOT, 'seeded')))):
    if idx % nshards != shard:
        continue
    p = os.path.join(ROOT, 'seeded', d)
    mp = os.path.join(p, 'meta.json')
    if not os.path.isfile(mp) or not d.startswith(prefix):
        continue
    meta = json.load(open(mp))
    checks = sorted({k.split()[0] for k, r in meta.get('check_runs', {}).items() if r['exit'] == 1 and r['violations'] > 0})
    if not checks:
        checks = [meta['property']]
    of = os.path.join(out, d + '.json')
    if not os.path.exists(of) or os.path.getsize(of) == 0:
        r = subprocess.run([sys.executable, os.path.join(ROOT, 'tools', 'eval_mutant.py'), p, meta['property'], '--skip-confirm', '--fallback-base', '3242983', '--checks', ','.join(checks)],
                           stdout=subprocess.PIPE, stderr=subprocess.STDOUT, text=True)
        open(of, 'w').write(r.stdout)
    try:
        res = json.load(open(of))
        det = [c for c, v in res['checks'].items() if v['rc'] == 1 and v['violations'] > 0]
    except Exception:
        det = []
        res = None
    print('%-14s %s %s' % (d, 'DETECTED by ' + ','.join(det) if det else 'MISSED', '' if res else '(unparsable result)'), flush=True)
    if not det:
        missed.append(d)
print('missed: %d %s' % (len(missed), ' '.join(missed)))
