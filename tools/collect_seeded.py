#!/usr/bin/env python3
"""Copy confirmed seeded changes from /tmp/mut/<ID>/mutant<k> into /verif/seeded/<ID>-m<k>/ with a meta.json.

A change is kept only when the confirmation in tools/eval_mutant.py succeeded: the patch applies to /repo HEAD, the
demonstration passes without it and fails with it, and the repository's own suite still passes with it.
"""
import json
import os
import re
import shutil
import sys

RES = sys.argv[1] if len(sys.argv) > 1 else '/tmp/mut/results'
OUT = '/verif/seeded'
SRC_PREFIX = sys.argv[2] if len(sys.argv) > 2 else 'C'     # worktree directory prefix under /tmp/mut
NAME_PREFIX = sys.argv[3] if len(sys.argv) > 3 else ''       # prefix of the directory under seeded/


def first_paragraphs(readme, n=1200):
    try:
        t = open(readme).read()
    except OSError:
        return ''
    return t[:n]


def main():
    os.makedirs(OUT, exist_ok=True)
    needs = json.load(open(os.path.join(OUT, 'needs.json'))) if os.path.exists(os.path.join(OUT, 'needs.json')) else {}
    kept = []
    for f in sorted(os.listdir(RES)):
        m = re.match(r'(C\d\d)_(\d)(?:\.[a-z0-9]+)?\.json$', f)
        if not m:
            continue
        pid, k = m.group(1), m.group(2)
        try:
            d = json.load(open(os.path.join(RES, f)))
        except Exception:
            continue
        if 'demo_clean_rc' not in d:
            # a re-run with --skip-confirm: take the confirmation from the first run of the same change
            base = os.path.join(RES, '%s_%s.json' % (pid, k))
            try:
                b = json.load(open(base))
            except Exception:
                continue
            for key in ('demo_clean_builds', 'demo_clean_rc', 'demo_mutant_builds', 'demo_mutant_rc', 'suite_passes_with_change', 'patch_applies'):
                if key in b and (key not in d or key == 'patch_applies'):
                    d.setdefault(key, b[key])
            if 'demo_clean_rc' not in d:
                continue
        confirmed = d.get('patch_applies') and d.get('demo_clean_rc') == 0 and d.get('demo_mutant_builds') is not None and \
            (d.get('demo_mutant_rc') not in (0, None) or d.get('demo_mutant_builds') is False) and d.get('suite_passes_with_change')
        if not confirmed:
            print('NOT CONFIRMED', f, {k2: d.get(k2) for k2 in ('patch_applies', 'demo_clean_rc', 'demo_mutant_rc', 'demo_mutant_builds', 'suite_passes_with_change')})
            continue
        src = '/tmp/mut/%s%s/mutant%s' % (SRC_PREFIX, pid[1:], k)
        dst = os.path.join(OUT, '%s%s-m%s' % (NAME_PREFIX, pid, k))
        os.makedirs(dst, exist_ok=True)
        for name in ('patch.diff', 'demo.cpp', 'README.md'):
            if os.path.exists(os.path.join(src, name)):
                shutil.copy(os.path.join(src, name), os.path.join(dst, name))
        meta_path = os.path.join(dst, 'meta.json')
        meta = json.load(open(meta_path)) if os.path.exists(meta_path) else {}
        meta.update({
            'property': pid,
            'origin': 'written by an independent sub-agent that was given only the property text and a scratch worktree of the library',
            'what_it_needs_to_manifest': needs.get('%s%s-m%s' % (NAME_PREFIX, pid, k)) or meta.get('what_it_needs_to_manifest') or 'see README.md (written by the author of the change)',
            'confirmation': {
                'patch_applies_to_repo_head': True,
                'demo_exit_status_without_change': d.get('demo_clean_rc'),
                'demo_exit_status_with_change': d.get('demo_mutant_rc') if d.get('demo_mutant_builds') else 'does not compile (that is the failure for C20 changes)',
                'repository_suite_passes_with_change': True,
                'how': 'tools/eval_mutant.py: scratch git worktree of /repo HEAD, `git apply patch.diff`, demo built with g++ -std=c++17 -O1 (+ sanitizers), /tmp/mut/run_tests.sh (cmake+ninja+ctest of the unedited suite); checks run with VERIF_REPO pointing at the patched worktree; worktree removed afterwards',
            },
        })
        runs = meta.get('check_runs', {})
        for c, r in d.get('checks', {}).items():
            runs['%s %s' % (c, f.split('.')[1] if f.count('.') > 1 else 'quick')] = {'exit': r['rc'], 'violations': r['violations'], 'first': r['first'][:2], 'wall_s': r['wall_s']}
        meta['check_runs'] = runs
        meta['detected'] = any(r['exit'] == 1 and r['violations'] > 0 for r in runs.values())
        json.dump(meta, open(meta_path, 'w'), indent=1)
        kept.append((NAME_PREFIX + pid, k, meta['detected']))
    for pid, k, det in kept:
        print('%s-m%s %s' % (pid, k, 'DETECTED' if det else 'missed'))


if __name__ == '__main__':
    sys.exit(main())
