#!/bin/sh
# usage: eval_list.sh <mutant root> <prefix> <result dir> <suffix> <list of "NN:k[:extra checks]">...
ROOT=$1; PFX=$2; OUT=$3; SUF=$4; shift 4
HERE=$(dirname "$0")
mkdir -p "$OUT"
for item in "$@"; do
  i=$(echo $item | cut -d: -f1); k=$(echo $item | cut -d: -f2); extra=$(echo $item | cut -d: -f3)
  checks=C$i; [ -n "$extra" ] && checks="C$i,$extra"
  out=$OUT/C${i}_$k$SUF.json
  python3 "$HERE/eval_mutant.py" "$ROOT/$PFX$i/mutant$k" C$i --skip-confirm ${FALLBACK_BASE:+--fallback-base $FALLBACK_BASE} --checks "$checks" > "$out" 2>&1
done
echo ALLDONE > "$OUT/DONE$SUF"
