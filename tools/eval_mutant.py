#!/usr/bin/env python3
"""Evaluate a seeded change: confirm it (applies, suite passes, demo fails with / passes without), then run checks on it.

usage: eval_mutant.py <mutant dir with patch.diff + demo.cpp> <property id> [--checks C01,C02,...] [--tier quick|thorough] [--skip-confirm]
Works on a scratch worktree of /repo (removed afterwards); /repo itself is never touched.
"""
import argparse
import json
import os
import shutil
import subprocess
import sys
import time


def sh(cmd, **kw):
    return subprocess.run(cmd, shell=isinstance(cmd, str), stdout=subprocess.PIPE, stderr=subprocess.STDOUT, text=True, **kw)


def main():
    ap = argparse.ArgumentParser()
    ap.add_argument('mutant')
    ap.add_argument('pid')
    ap.add_argument('--checks', default=None)
    ap.add_argument('--tier', default='quick')
    ap.add_argument('--skip-confirm', action='store_true')
    ap.add_argument('--demo-flags', default='-fsanitize=address,undefined')
    ap.add_argument('--fallback-base', default=None, help='revision to evaluate against when the patch does not apply to /repo HEAD (the change was written against an older head)')
    a = ap.parse_args()
    mdir = os.path.abspath(a.mutant)
    tag = '%s_%s_%d' % (a.pid, os.path.basename(mdir), os.getpid())
    wt = '/tmp/mv_' + tag
    res = {'mutant': mdir, 'property': a.pid}
    sh(['git', '-C', '/repo', 'worktree', 'add', '-q', '--detach', wt, 'HEAD'])
    res['base'] = 'HEAD'
    if a.fallback_base and sh(['git', '-C', wt, 'apply', '--check', os.path.join(mdir, 'patch.diff')]).returncode != 0:
        sh(['git', '-C', wt, 'checkout', '-q', '--detach', a.fallback_base])
        res['base'] = a.fallback_base
    try:
        demo = os.path.join(mdir, 'demo.cpp')
        flags = a.demo_flags.split()

        def build_demo(out):
            r = sh(['g++', '-std=c++17', '-g', '-O1', '-pthread'] + flags + ['-I' + os.path.join(wt, 'src'), demo, '-o', out])
            return r.returncode == 0, r.stdout[-1500:]

        def run_demo(binp):
            env = dict(os.environ, TSAN_OPTIONS='halt_on_error=1 exitcode=66', ASAN_OPTIONS='detect_leaks=1')
            try:
                r = subprocess.run([binp], stdout=subprocess.PIPE, stderr=subprocess.STDOUT, text=True, timeout=300, env=env)
                return r.returncode, r.stdout[-600:]
            except subprocess.TimeoutExpired:
                return -99, 'timeout'

        if not a.skip_confirm:
            ok, log = build_demo(wt + '_demo_clean')
            res['demo_clean_builds'] = ok
            if ok:
                rc, out = run_demo(wt + '_demo_clean')
                res['demo_clean_rc'] = rc
        r = sh(['git', '-C', wt, 'apply', os.path.join(mdir, 'patch.diff')])
        res['patch_applies'] = r.returncode == 0
        if r.returncode != 0:
            res['apply_log'] = r.stdout[-800:]
            print(json.dumps(res, indent=1))
            return 1
        if not a.skip_confirm:
            ok, log = build_demo(wt + '_demo_mut')
            res['demo_mutant_builds'] = ok
            if ok:
                rc, out = run_demo(wt + '_demo_mut')
                res['demo_mutant_rc'] = rc
                res['demo_mutant_tail'] = out[-300:]
            else:
                res['demo_mutant_build_log'] = log[-400:]
            r = sh(['/tmp/mut/run_tests.sh', wt])
            res['suite_passes_with_change'] = r.returncode == 0
            res['suite_tail'] = r.stdout.strip().splitlines()[-2:] if r.stdout.strip() else []
            shutil.rmtree(os.path.join(wt, '_build'), ignore_errors=True)
        checks = a.checks.split(',') if a.checks else [a.pid]
        res['checks'] = {}
        for c in checks:
            t0 = time.time()
            env = dict(os.environ, VERIF_REPO=wt)
            root = os.path.dirname(os.path.dirname(os.path.abspath(__file__)))  # the /verif tree this script belongs to
            r = subprocess.run([os.path.join(root, 'check'), c, '--tier', a.tier], stdout=subprocess.PIPE, stderr=subprocess.STDOUT, text=True, env=env, cwd=root)
            viol = [l for l in r.stdout.splitlines() if l.startswith('VIOLATION')]
            fails = [l for l in r.stdout.splitlines() if l.startswith('failure in') or l.startswith('ill-formed')]
            res['checks'][c] = {'rc': r.returncode, 'violations': len(viol), 'first': (fails[:8] + viol[:1]), 'wall_s': round(time.time() - t0, 1)}
        print(json.dumps(res, indent=1))
        return 0
    finally:
        sh(['git', '-C', '/repo', 'worktree', 'remove', '--force', wt])
        for f in (wt + '_demo_clean', wt + '_demo_mut'):
            if os.path.exists(f):
                os.remove(f)


if __name__ == '__main__':
    sys.exit(main())
