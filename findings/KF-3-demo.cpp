#include <cntgs/contiguous.hpp>
#include <cstdio>
#include <cstdlib>
#include <string>
static int null_deallocs = 0;
template <class T> struct A {
  using value_type = T;
  A() = default;
  template <class U> A(const A<U>&) {}
  T* allocate(std::size_t n) { return static_cast<T*>(std::malloc(n * sizeof(T) + 1)); }
  __attribute__((noinline)) void deallocate(T* p, std::size_t) { if (!p) { ++null_deallocs; return; } std::free(p); }
  bool operator==(const A&) const { return true; }
  bool operator!=(const A&) const { return false; }
};
template <class... P> using BV = cntgs::BasicContiguousVector<cntgs::Options<cntgs::Allocator<A<std::byte>>>, P...>;
int main() {
  int a, b, c, d;
  { BV<unsigned, float> v; v.reserve(4); v.emplace_back(1u, 2.f); } a = null_deallocs;
  { BV<unsigned, cntgs::VaryingSize<float>> w; w.reserve(4, 16); } b = null_deallocs;
  { BV<unsigned, std::string> w; w.reserve(4); } c = null_deallocs;
  { BV<unsigned, cntgs::VaryingSize<std::string>> w; w.reserve(4, 100); } d = null_deallocs;
  std::printf("fixed-trivial %d, varying-trivial %d, fixed-string %d, varying-string %d\n", a, b - a, c - b, d - c);
  return null_deallocs != 0;
}
