#!/usr/bin/env python3
"""Driver: build cache, sharded execution, failure confirmation, known findings, evidence."""
import fcntl
import hashlib
import json
import os
import shutil
import subprocess
import sys
import time
from concurrent.futures import ThreadPoolExecutor

VERIF = os.path.dirname(os.path.dirname(os.path.abspath(__file__)))
sys.path.insert(0, os.path.join(VERIF, 'gen'))
import configs as cfggen  # noqa: E402

REPO = os.environ.get('VERIF_REPO', '/repo')
BUILD_ROOT = os.environ.get('VERIF_BUILD', os.path.join(VERIF, 'build'))
JOBS = int(os.environ.get('VERIF_JOBS', '16'))
CXX = 'clang++'
# UBSan's nonnull-attribute check is on: a null pointer handed to memcpy/memmove/memcmp is undefined behaviour that
# optimising compilers act on (known finding KF-3). The call sites of KF-3 are excluded at compile time through
# findings/ubsan_known_sites.txt so that the search goes on behind them; the KF-3 witness uses SAN_FLAGS_NOIGNORE.
UBSAN_IGNORE = os.path.join(VERIF, 'findings', 'ubsan_known_sites.txt')
SAN_FLAGS_NOIGNORE = ['-fsanitize=address,undefined', '-fno-sanitize=alignment', '-fno-sanitize-recover=undefined']
SAN_FLAGS = SAN_FLAGS_NOIGNORE + ['-fsanitize-ignorelist=' + UBSAN_IGNORE]
BASE_FLAGS = ['-std=gnu++17', '-O1', '-g', '-fno-omit-frame-pointer']
RUN_ENV = dict(os.environ, ASAN_OPTIONS='detect_leaks=0:abort_on_error=0:handle_abort=1:allocator_may_return_null=1',
               UBSAN_OPTIONS='print_stacktrace=1:halt_on_error=1')


def sh(cmd, **kw):
    return subprocess.run(cmd, stdout=subprocess.PIPE, stderr=subprocess.STDOUT, text=True, **kw)


def tree_hash(paths):
    h = hashlib.sha256()
    for root in paths:
        if os.path.isfile(root):
            h.update(root.encode())
            h.update(open(root, 'rb').read())
            continue
        for d, dirs, files in sorted(os.walk(root)):
            dirs.sort()
            for f in sorted(files):
                p = os.path.join(d, f)
                h.update(os.path.relpath(p, root).encode())
                h.update(open(p, 'rb').read())
    return h.hexdigest()[:16]


def repo_key():
    return tree_hash([os.path.join(REPO, 'src', 'cntgs')])


HARNESS_SETS = {
    'history': ['common.hpp', 'ledger.hpp', 'values.hpp', 'meta.hpp', 'runner.hpp', 'runner_ext.inc', 'runner_all.hpp',
                'profiles.hpp', 'engine_rc.cpp', 'engine_fuzz.cpp', 'engine_c17.cpp'],
    'c15': ['common.hpp', 'c15.hpp', 'engine_c15.cpp'],
    'c19': ['common.hpp', 'c19.hpp', 'engine_c19.cpp', 'values.hpp', 'ledger.hpp', 'meta.hpp'],
}


def harness_key(which='history'):
    return tree_hash([os.path.join(VERIF, 'harness', f) for f in HARNESS_SETS[which] if os.path.exists(os.path.join(VERIF, 'harness', f))])


class Builder:
    """Content-addressed build cache: build/<repo-key>-<harness-key>/"""

    def __init__(self, extra_flags=(), tag='asan', harness='history'):
        self.key = repo_key() + '-' + harness_key(harness) + '-' + tag
        if tag in ('asan', 'fuzz'):
            self.key += '-' + hashlib.sha256(open(UBSAN_IGNORE, 'rb').read()).hexdigest()[:6]
        self.dir = os.path.join(BUILD_ROOT, self.key)
        os.makedirs(self.dir, exist_ok=True)
        self.flags = BASE_FLAGS + (SAN_FLAGS if tag == 'asan' else SAN_FLAGS_NOIGNORE if tag == 'asan-noignore' else list(extra_flags)) + \
            ['-I' + os.path.join(VERIF, 'harness'), '-I' + os.path.join(REPO, 'src')]
        self.tag = tag
        self.lock = open(os.path.join(BUILD_ROOT, '.lock'), 'w')
        os.utime(self.dir, None)

    def _compile(self, src, obj):
        if os.path.exists(obj):
            return True, ''
        tmp = obj + '.tmp%d' % os.getpid()
        r = sh([CXX] + self.flags + ['-c', src, '-o', tmp])
        if r.returncode != 0:
            # a compile error is reported as a violation (an operation of the property's domain is gone), so rule out
            # a transient failure (file caught mid-write, out of memory under load) by compiling once more
            time.sleep(0.5)
            r = sh([CXX] + self.flags + ['-c', src, '-o', tmp])
        if r.returncode != 0:
            return False, r.stdout
        os.replace(tmp, obj)
        return True, ''

    def engine_obj(self, name='engine_rc'):
        obj = os.path.join(self.dir, name + '.o')
        ok, log = self._compile(os.path.join(VERIF, 'harness', name + '.cpp'), obj)
        if not ok:
            raise RuntimeError('engine does not compile:\n' + log)
        return obj

    def config_bin(self, cfg, engine='engine_rc', header='runner_all.hpp'):
        """returns (path or None, log)"""
        binp = os.path.join(self.dir, 'bin_%s_%s' % (engine, cfg['name']))
        if os.path.exists(binp):
            return binp, ''
        src = os.path.join(self.dir, 'cfg_%s.cpp' % cfg['name'])
        obj = os.path.join(self.dir, 'cfg_%s.o' % cfg['name'])
        if not os.path.exists(obj):
            with open(src, 'w') as f:
                f.write(cfggen.emit_tu(cfg, header))
            ok, log = self._compile(src, obj)
            if not ok:
                return None, log
        eng = self.engine_obj(engine)
        tmp = binp + '.tmp%d' % os.getpid()
        extra = ['-lrapidcheck'] if engine == 'engine_rc' else []
        sanl = SAN_FLAGS if self.tag == 'asan' else SAN_FLAGS_NOIGNORE if self.tag == 'asan-noignore' else []
        if engine == 'engine_fuzz':
            sanl = ['-fsanitize=fuzzer,address,undefined'] + SAN_FLAGS[1:]
        r = sh([CXX] + BASE_FLAGS + sanl + [eng, obj] + extra + ['-o', tmp])
        if r.returncode != 0:
            return None, r.stdout
        os.replace(tmp, binp)
        return binp, ''

    def build_all(self, cfgs, engine='engine_rc'):
        """parallel build; returns {name: (bin|None, log)}"""
        fcntl.flock(self.lock, fcntl.LOCK_EX)
        try:
            self.engine_obj(engine)
            with ThreadPoolExecutor(JOBS) as ex:
                res = list(ex.map(lambda c: self.config_bin(c, engine), cfgs))
            return {c['name']: r for c, r in zip(cfgs, res)}
        finally:
            fcntl.flock(self.lock, fcntl.LOCK_UN)


def prune_build_cache(keep=6):
    if not os.path.isdir(BUILD_ROOT):
        return
    ds = [os.path.join(BUILD_ROOT, d) for d in os.listdir(BUILD_ROOT) if os.path.isdir(os.path.join(BUILD_ROOT, d))]
    ds.sort(key=lambda d: os.path.getmtime(d), reverse=True)
    for d in ds[keep:]:
        shutil.rmtree(d, ignore_errors=True)


# ---------------------------------------------------------------------------------------------------------------
# property table
# ---------------------------------------------------------------------------------------------------------------
def prop_num(pid):
    return int(pid[1:])


def select(pool, want_tags=None, need_all=None, exclude=None, limit=None, rng=None):
    out = []
    for c in pool:
        if want_tags and not (c['tags'] & set(want_tags)):
            continue
        if need_all and not set(need_all) <= c['tags']:
            continue
        if exclude and (c['tags'] & set(exclude)):
            continue
        out.append(c)
    return out


def pool_for(pid, tier, seed):
    core = cfggen.core_pool()
    nrand = 24 if tier == 'quick' else 72
    rnd = cfggen.random_pool(seed * 7919 + 17, nrand)
    names = {c['name'] for c in core}
    rnd = [c for c in rnd if c['name'] not in names]
    allp = core + rnd
    n = prop_num(pid)
    if n == 16:
        # swap / move construction hand over block AND allocator: every combination of the propagation traits for a
        # list without and a list with an address table
        ap = [c for c in cfggen.allocator_pool() if c['name'].startswith(('u32_u8__', 'u8_Vu16__'))]
        return allp + (ap if tier == 'thorough' else [c for c in ap if c['alloc'][1] != c['alloc'][2]])
    if n in (1, 9, 10, 18):
        return allp
    if n in (2, 3, 4, 5):
        if tier == 'thorough':
            allp = allp + [c for c in cfggen.grid_pool() if c['name'] not in {x['name'] for x in allp}]
        return [c for c in allp if 'layout' in c['tags'] or 'lowalign' in c['tags'] or 'risky' in c['tags'] or 'suite' in c['tags']]
    if n == 6:
        return [c for c in allp if 'tracked' in c['tags'] or 'nontrivial' in c['tags']]
    if n == 7:
        ap = cfggen.allocator_pool()
        extra = [c for c in ap if c['alloc'] in ((True, True, True, False), (False, False, False, True))]
        # every combination of the propagation traits (the library consults each trait separately) for a list without
        # and a list with an address table
        mixed = [c for c in ap if c['name'].startswith(('u32_u8__', 'u8_Vu16__')) and c not in extra]
        return allp + extra + mixed
    if n == 8:
        return cfggen.allocator_pool()
    if n == 11:
        return [c for c in allp]
    if n == 12:
        extra = [c for c in cfggen.allocator_pool() if not c['alloc'][3]][::3]
        return allp + extra
    if n in (13, 14):
        # std::unique_ptr compares by identity: content-based comparison oracles do not apply to such lists
        return [c for c in allp if 'moveonly' not in c['tags'] and 'uptr' not in c['name']]
    if n == 17:
        names = ['u32_float__A0000', 'Ffloat_u32_Ffloat__A0000', 'FTracked_u8__A0000', 'u8_Vu8_u16__A0000', 'u8_VTracked__A0000',
                 'u8_VTracked_u16_FTracked__A0000', 'u16_VTrackeda8_u32a4__A0000', 'Fu8_u8a4_Fu8__A0000', 'FTrackedMO_TrackedMO__A0000',
                 'u8_VTrackedMO_u8__A0000', 'u8_Vstring__A0000', 'u8_Vu8_Tracked__A0000']
        base = [c for c in core if c['name'] in names]
        kinds = [c for c in cfggen.allocator_pool() if c['alloc'] in ((False, False, False, False), (True, True, True, False), (False, False, False, True), (True, False, False, False), (False, True, False, False))]
        if tier == 'quick':
            kinds = kinds[::2]
        return base + kinds + (rnd[:4] if tier == 'quick' else rnd[:16])
    return allp


BUDGET = {
    # pid: (quick cases per configuration, quick max program length, thorough cases, thorough max length)
    'C01': (5000, 30, 20000, 80), 'C02': (5000, 30, 20000, 70), 'C03': (4000, 28, 16000, 60), 'C04': (4000, 28, 16000, 60),
    'C05': (4000, 28, 16000, 60), 'C06': (6000, 30, 24000, 70), 'C07': (4000, 30, 16000, 70), 'C08': (1500, 16, 12000, 30),
    'C09': (4000, 24, 16000, 60), 'C10': (5000, 25, 20000, 60), 'C11': (4000, 25, 16000, 60), 'C12': (4000, 22, 16000, 50),
    'C13': (5000, 24, 20000, 40), 'C14': (5000, 24, 20000, 40), 'C16': (4000, 30, 16000, 70), 'C18': (5000, 18, 20000, 40),
    'C17': (150, 12, 1500, 30),
}

LEDGER_CODES = {'dealloc_unknown_pointer', 'dealloc_wrong_arena', 'dealloc_wrong_size', 'dealloc_wrong_type', 'block_never_returned', 'crash'}
REGISTRY_CODES = {'block_freed_with_live_objects', 'construct_on_live_object', 'destroy_of_dead_object', 'object_bytes_clobbered', 'use_of_dead_object',
                  'object_never_destroyed', 'live_object_not_held', 'held_object_not_alive', 'crash'}
FAULT_FAMILIES = {
    'C06': {'want': lambda c: 'tracked' in c['tags'], 'match': lambda code, last: code in REGISTRY_CODES,
            'view': 0x100, 'what': 'the object-lifetime registry reports it (double construction/destruction, use after destruction, clobbered or leaked object) or the process dies'},
    'C07': {'want': lambda c: True, 'match': lambda code, last: code in LEDGER_CODES,
            'view': 0x200, 'what': 'the checking allocator reports it (unknown pointer / double free, wrong size, wrong arena, block never returned) or the process dies'},
    'C10': {'want': lambda c: True, 'match': lambda code, last: last == 'RESERVE',
            'view': 0x400, 'what': 'the operation that met the failure is reserve(): a reserve that throws must leave capacity(), size() and all values as they were'},
}

RULES = {
    'C01': 'rapidcheck-generated operation histories (construction, emplace_back in 4 source forms, fill, pop_back, erase(pos), erase(first,last), clear, reserve) interpreted totally against each parameter list; oracle: std::vector-of-tuples model compared after every op through operator[], const operator[], iteration, const iteration, front/back, structured bindings, get_fixed_size, erase return value. Non-trivial: the history contains an emplace_back after an erase/pop/clear on a vector whose elements had unequal byte extents, or a reserve(n>capacity) on a partly filled vector; distinct = distinct 64-bit hash of (configuration, program).',
}


# ---------------------------------------------------------------------------------------------------------------
# running
# ---------------------------------------------------------------------------------------------------------------
def run_shard(binp, prop, cases, maxlen, seed, outdir, name, guards=0, isolate=False, timeout=3600):
    stats = os.path.join(outdir, name + '.stats.json')
    rep = os.path.join(outdir, name + '.replay')
    for p in (stats, rep, rep + '.crash'):
        if os.path.exists(p):
            os.remove(p)
    cmd = [binp, '--prop', str(prop), '--cases', str(cases), '--maxlen', str(maxlen), '--seed', str(seed),
           '--guards', str(guards), '--stats', stats, '--replay-out', rep]
    if isolate:
        cmd.append('--isolate')
    t0 = time.time()
    try:
        r = subprocess.run(cmd, stdout=subprocess.PIPE, stderr=subprocess.STDOUT, text=True, env=RUN_ENV, timeout=timeout)
        rc, out = r.returncode, r.stdout
    except subprocess.TimeoutExpired as e:
        rc, out = -999, (e.stdout or '') if isinstance(e.stdout, str) else ''
    st = None
    if os.path.exists(stats):
        try:
            st = json.load(open(stats))
        except Exception:
            st = None
    return {'name': name, 'rc': rc, 'out': out[-6000:], 'stats': st, 'replay': rep if os.path.exists(rep) else None,
            'crash': rep + '.crash' if os.path.exists(rep + '.crash') else None, 'wall': time.time() - t0}


FUZZ_PROPS = {'C01', 'C02', 'C06', 'C07', 'C10', 'C16', 'C18'}
FUZZ_CONFIGS = ['u8_Vu8_u32a4__A0000', 'u8_Vu16_u8_VB5__A0000', 'u8_VTracked_u16_FTracked__A0000', 'Fu8_u8a4_Fu8__A0000',
                'u32_sza8_Vfloata8_sza8_Vfloata16__A0000', 'u8_Vu8_Tracked__A0000', 'FTrackedMO_TrackedMO__A0000', 'u16_Vu8_Fdoublea16__A0000']
FUZZ_FLAGS = ['-fsanitize=fuzzer-no-link,address,undefined', '-fno-sanitize=alignment', '-fno-sanitize-recover=undefined',
              '-fsanitize-ignorelist=' + UBSAN_IGNORE]


def build_fuzz(cfgs):
    """libFuzzer binaries (coverage-instrumented objects) for a few configurations"""
    b = Builder(tag='fuzz')
    flags = BASE_FLAGS + FUZZ_FLAGS + ['-I' + os.path.join(VERIF, 'harness'), '-I' + os.path.join(REPO, 'src')]
    eng = os.path.join(b.dir, 'engine_fuzz.o')
    if not os.path.exists(eng):
        r = sh([CXX] + flags + ['-c', os.path.join(VERIF, 'harness', 'engine_fuzz.cpp'), '-o', eng])
        if r.returncode != 0:
            raise RuntimeError(r.stdout)

    def one(c):
        binp = os.path.join(b.dir, 'fuzz_' + c['name'])
        if os.path.exists(binp):
            return binp, ''
        src = binp + '.cpp'
        open(src, 'w').write(cfggen.emit_tu(c))
        r = sh([CXX] + flags + ['-c', src, '-o', binp + '.o'])
        if r.returncode != 0:
            return None, r.stdout
        r = sh([CXX] + BASE_FLAGS + ['-fsanitize=fuzzer,address,undefined', eng, binp + '.o', '-o', binp + '.tmp'])
        if r.returncode != 0:
            return None, r.stdout
        os.replace(binp + '.tmp', binp)
        return binp, ''

    with ThreadPoolExecutor(JOBS) as ex:
        res = list(ex.map(one, cfgs))
    return b, res


def run_fuzz_campaign(binp, name, prop, seed, runs, outdir, guards, with_seeds):
    """one libFuzzer campaign; returns dict(stats, crash replay path or None, soft replay path or None)"""
    tag = '%s_%s' % (name, 'seeded' if with_seeds else 'empty')
    corp = os.path.join(outdir, 'corpus_' + tag)
    art = os.path.join(outdir, 'art_' + tag) + '/'
    os.makedirs(corp, exist_ok=True)
    os.makedirs(art, exist_ok=True)
    stats = os.path.join(outdir, tag + '.fuzz.json')
    rep = os.path.join(outdir, tag + '.fuzz.replay')
    env = dict(RUN_ENV, VF_PROP=str(prop), VF_GUARDS=str(guards), VF_STATS=stats, VF_REPLAY_OUT=rep)
    if with_seeds:
        env['VF_MAKE_SEEDS'] = corp
    cmd = [binp, '-runs=%d' % runs, '-seed=%d' % (seed % 1000000 + 1), '-max_len=1024', '-entropic=0', '-artifact_prefix=' + art,
           '-print_final_stats=1', '-verbosity=0', corp]
    r = subprocess.run(cmd, stdout=subprocess.PIPE, stderr=subprocess.STDOUT, text=True, env=env)
    st = None
    if os.path.exists(stats):
        try:
            st = json.load(open(stats))
        except Exception:
            st = None
    out = {'name': tag, 'rc': r.returncode, 'stats': st, 'replay': None, 'tail': r.stdout[-3000:]}
    if r.returncode != 0:
        if os.path.exists(rep):
            out['replay'] = rep
        else:
            # hard crash: only crash-/leak- artifacts count (slow-unit / timeout / oom are load noise)
            arts = [f for f in os.listdir(art) if f.startswith('crash-') or f.startswith('leak-')]
            if arts:
                dump = os.path.join(outdir, tag + '.dump.replay')
                env2 = dict(env, VF_DUMP=dump)
                env2.pop('VF_MAKE_SEEDS', None)
                subprocess.run([binp, os.path.join(art, arts[0])], stdout=subprocess.PIPE, stderr=subprocess.STDOUT, env=env2)
                if os.path.exists(dump):
                    out['replay'] = dump
    shutil.rmtree(corp, ignore_errors=True)
    return out


def replay_once(binp, path, guards=0):
    r = subprocess.run([binp, '--replay', path, '--guards', str(guards)], stdout=subprocess.PIPE, stderr=subprocess.STDOUT,
                       text=True, env=RUN_ENV, timeout=600)
    code = None
    for line in r.stdout.splitlines():
        if line.startswith('REPLAY-FAIL'):
            code = line.split('code=')[1].split(' ')[0]
    if r.returncode == 0:
        return 'pass', None, r.stdout
    if code:
        return 'fail', code, r.stdout
    return 'crash', 'crash', r.stdout[-4000:]


def shard_seed(seed, name, pid):
    h = hashlib.sha256(('%d|%s|%s' % (seed, name, pid)).encode()).digest()
    return int.from_bytes(h[:6], 'big') + 1


def write_evidence(pid, tier, seed, level, coverage, wall, violations, assumptions):
    # runs against a scratch copy (sensitivity runs, VERIF_REPO set) must not overwrite the committed evidence
    evdir = 'evidence' if os.path.realpath(REPO) == '/repo' else 'evidence_scratch'
    os.makedirs(os.path.join(VERIF, evdir), exist_ok=True)
    ev = {'property_id': pid, 'tier': tier, 'seed': seed, 'level': level, 'coverage': coverage,
          'assumptions': assumptions, 'wall_s': round(wall, 2), 'violations': violations}
    with open(os.path.join(VERIF, evdir, pid + '.json'), 'w') as f:
        json.dump(ev, f, indent=1)
        f.write('\n')


def load_known():
    p = os.path.join(VERIF, 'findings', 'known_findings.json')
    if not os.path.exists(p):
        return {'known': [], 'fixed': []}
    return json.load(open(p))


def save_violation_replay(pid, src_path):
    d = os.path.join(VERIF, 'replays', pid)
    os.makedirs(d, exist_ok=True)
    data = open(src_path, 'rb').read()
    name = hashlib.sha256(data).hexdigest()[:12] + '.replay'
    dst = os.path.join(d, name)
    with open(dst, 'wb') as f:
        f.write(data)
    return dst


ASSUMPTIONS = [
    'preconditions D1-D15 of DESIGN.md section 0.1 delimit the generated input domain (emplace_back only below capacity and within the byte budget, count argument equals the range length, valid iterators, ...)',
    'the checking allocator, the instrumented value types and the model in /verif/harness are correct',
    'clang++ 14 -O1 with AddressSanitizer and UndefinedBehaviorSanitizer (alignment check off: the library stores objects at alignment 1 by design; nonnull-attribute check on except at the call sites of known finding KF-3), library asserts enabled',
    'exploration only: absence of violations on the generated cases is not a proof',
]


def run_history_property(pid, tier, seed, rule, level='exploration', extra_cov=None):
    """generic runner for the properties served by engine_rc + runner.hpp"""
    t0 = time.time()
    n = prop_num(pid)
    qc, ql, tc, tl = BUDGET[pid]
    cases, maxlen = (qc, ql) if tier == 'quick' else (tc, tl)
    if os.environ.get('VERIF_CASES'):  # experimentation only (sensitivity runs); registered commands never set it
        cases = int(os.environ['VERIF_CASES'])
    pool = pool_for(pid, tier, seed)
    if os.environ.get('VERIF_ONLY'):  # experimentation only: restrict the pool to configurations whose name matches
        import re
        pool = [c for c in pool if re.search(os.environ['VERIF_ONLY'], c['name'])]
    b = Builder()
    built = b.build_all(pool)
    prune_build_cache()
    outdir = os.path.join(b.dir, 'out_%s_%s_%d' % (pid, tier, os.getpid()))
    os.makedirs(outdir, exist_ok=True)
    violations = []
    known = load_known()
    guards = 0
    for k in known.get('known', []):
        guards |= int(k.get('guard_bit', 0))

    # a configuration TU that no longer compiles: an operation in the property's domain is gone
    broken = [(c, built[c['name']][1]) for c in pool if built[c['name']][0] is None]
    for c, log in broken[:3]:
        p = os.path.join(outdir, 'compile_%s.log' % c['name'])
        with open(p, 'w') as f:
            f.write('property %s\nconfig %s\ncode %s.does_not_compile\n# the harness TU for this configuration does not compile against the working tree\n' % (pid, c['name'], pid))
            f.write(log[-20000:])
        violations.append((c['name'], pid + '.does_not_compile', save_violation_replay(pid, p)))

    runnable = [c for c in pool if built[c['name']][0]]
    with ThreadPoolExecutor(JOBS) as ex:
        results = list(ex.map(lambda c: run_shard(built[c['name']][0], n, cases, maxlen, shard_seed(seed, c['name'], pid), outdir, c['name'], guards), runnable))

    # failures: soft failures are already shrunk; crashed shards are re-run isolated so rapidcheck can shrink them.
    # The isolated re-runs go in parallel, and only for the first 8 crashed configurations: when a change breaks nearly
    # every configuration (and each shrink step may cost a child its full alarm time) the remaining ones are reported
    # with the unshrunk program the crashing process left behind.
    crashed = [(c, r) for c, r in zip(runnable, results) if r['rc'] != 0 and r['replay'] is None]
    iso = {}
    if crashed:
        with ThreadPoolExecutor(JOBS) as ex:
            outs = list(ex.map(lambda cr: run_shard(built[cr[0]['name']][0], n, cases, maxlen, shard_seed(seed, cr[0]['name'], pid), outdir, cr[0]['name'] + '.iso', guards, isolate=True), crashed[:8]))
        iso = {cr[0]['name']: o for cr, o in zip(crashed[:8], outs)}
    for c, r in zip(runnable, results):
        if r['rc'] == 0:
            continue
        binp = built[c['name']][0]
        rep = r['replay']
        if rep is None:
            r2 = iso.get(c['name'])
            if r2 is not None:
                rep = r2['replay'] or r2['crash'] or r['crash']
                if r2['stats'] and not r['stats']:
                    r['stats'] = r2['stats']
            else:
                rep = r['crash']
        if rep is None:
            p = os.path.join(outdir, 'unreproduced_%s.log' % c['name'])
            with open(p, 'w') as f:
                f.write('property %s\nconfig %s\ncode %s.crash\n# shard died (rc=%s) and the isolated re-run produced no replay\n%s\n' % (pid, c['name'], pid, r['rc'], r['out']))
            print('INCONCLUSIVE: shard %s died with rc=%s but the failure did not reproduce in isolation (see %s)' % (c['name'], r['rc'], p))
            continue
        # confirm 3x in fresh processes
        fails = 0
        code = None
        for _ in range(3):
            verdict, cd, out = replay_once(binp, rep, guards)
            if verdict != 'pass':
                fails += 1
                code = cd
        if fails == 3:
            violations.append((c['name'], code, save_violation_replay(pid, rep)))
        else:
            print('FLAKY-NOT-REPORTED: %s replay failed %d/3 times' % (c['name'], fails))

    # fault sub-campaign: histories in which an allocation of the last operation throws are histories too. The engine's
    # fault-enumeration mode (the deciding step of C17) is run on part of the pool and a failure is reported under this
    # property when its code belongs to the property's own oracle family (see FAULT_FAMILIES)
    fault_summary = None
    fam = FAULT_FAMILIES.get(pid)
    if fam:
        fpool = [c for c in runnable if fam['want'](c)]
        fpool = fpool[:(16 if tier == 'quick' else 48)]
        fcases, fmaxlen = (60, 10) if tier == 'quick' else (400, 24)
        if os.environ.get('VERIF_CASES'):
            fcases = max(10, int(os.environ['VERIF_CASES']) // 20)
        with ThreadPoolExecutor(JOBS) as ex:
            fres = list(ex.map(lambda c: run_shard(built[c['name']][0], 17, fcases, fmaxlen, shard_seed(seed, c['name'], pid + 'fault'), outdir, c['name'] + '.fault', guards | fam['view']), fpool))
        fault_summary = {'configurations': len(fpool), 'cases_per_configuration': fcases, 'max_program_length': fmaxlen, 'evaluations': 0,
                         'distinct_nontrivial': 0, 'fault_injected_runs': 0, 'failures_outside_this_property': 0,
                         'rule': 'fault-enumeration mode of the engine (as in C17): a generated history, then its last operation re-run once per allocation it performs with that allocation throwing std::bad_alloc, everything destroyed afterwards; reported here when ' + fam['what']}
        for c, r in zip(fpool, fres):
            if r['stats']:
                fault_summary['evaluations'] += r['stats']['evaluations']
                fault_summary['distinct_nontrivial'] += r['stats']['distinct_nontrivial']
                fault_summary['fault_injected_runs'] += r['stats'].get('fault_runs', 0)
            if r['rc'] == 0:
                continue
            rep = r['replay'] or r['crash']
            if rep is None:
                continue
            fails, code = 0, None
            for _ in range(3):
                verdict, cd, out = replay_once(built[c['name']][0], rep, guards | fam['view'])
                if verdict != 'pass':
                    fails += 1
                    code = cd
            if fails < 3:
                print('FLAKY-NOT-REPORTED: %s fault replay failed %d/3 times' % (c['name'], fails))
                continue
            bare = code.split('.', 1)[1] if '.' in code else code
            last_kind = [l.split()[1] for l in open(rep) if l.startswith('op ')][-1:]
            if not fam['match'](bare, last_kind[0] if last_kind else ''):
                fault_summary['failures_outside_this_property'] += 1
                print('NOTE: fault history on %s fails with %s, which is outside the oracle family of %s (C17 decides it)' % (c['name'], code, pid))
                continue
            with open(rep, 'a') as f:
                f.write('report_as %s\nview %d\n# found by the fault sub-campaign of %s: the last operation is re-run with one of its allocations throwing\n' % (pid, fam['view'], pid))
            violations.append((c['name'] + ' (allocation failure injected)', pid + '.' + bare, save_violation_replay(pid, rep)))

    # second engine (thorough tier of the history properties): coverage-guided libFuzzer campaigns
    fuzz_summary = None
    if tier == 'thorough' and pid in FUZZ_PROPS:
        byname = {c['name']: c for c in cfggen.core_pool()}
        fcfgs = [byname[nm] for nm in FUZZ_CONFIGS if nm in byname and (n != 6 or 'tracked' in byname[nm]['tags'])]
        fb, fres = build_fuzz(fcfgs)
        runs = int(os.environ.get('VERIF_FUZZ_RUNS', '120000'))
        jobs = []
        for c, (fbin, flog) in zip(fcfgs, fres):
            if fbin:
                jobs.append((fbin, c, True))
                jobs.append((fbin, c, False))
        with ThreadPoolExecutor(JOBS) as ex:
            fouts = list(ex.map(lambda j: run_fuzz_campaign(j[0], j[1]['name'], n, shard_seed(seed, j[1]['name'], pid + 'fuzz'), runs, outdir, guards, j[2]), jobs))
        fuzz_summary = {'engine': 'libFuzzer (-entropic=0, max_len=1024, coverage-instrumented configuration TUs)', 'campaigns': len(fouts), 'runs_per_campaign': runs,
                        'executions': 0, 'distinct_nontrivial': 0, 'corpora': 'each configuration once from 5 small valid seed programs and once from an empty corpus', 'samples': []}
        for (fbin, c, seeded), fo in zip(jobs, fouts):
            if fo['stats']:
                fuzz_summary['executions'] += fo['stats']['evaluations']
                fuzz_summary['distinct_nontrivial'] += fo['stats']['distinct_nontrivial']
                if fo['stats']['samples'] and len(fuzz_summary['samples']) < 3:
                    fuzz_summary['samples'].append({'configuration': c['name'], 'program': fo['stats']['samples'][0]})
            if fo['rc'] != 0 and fo['replay']:
                # confirm with the rapidcheck binary of the same configuration (engine-independent replay format)
                cb, clog = b.config_bin(c)
                fails, code = 0, None
                for _ in range(3):
                    verdict, cd, out = replay_once(cb, fo['replay'], guards)
                    if verdict != 'pass':
                        fails += 1
                        code = cd
                if fails == 3:
                    violations.append((c['name'] + ' (libFuzzer)', code, save_violation_replay(pid, fo['replay'])))
                else:
                    print('FLAKY-NOT-REPORTED: libFuzzer finding on %s replayed %d/3' % (c['name'], fails))
            elif fo['rc'] != 0:
                print('NOTE: libFuzzer campaign %s ended with rc=%s without a crash-/leak- artifact (load noise): %s' % (fo['name'], fo['rc'], fo['tail'][-300:].replace('\n', ' ')))

    # aggregate
    ev = {'evaluations': 0, 'distinct_nontrivial': 0, 'rule': rule, 'samples': [], 'configurations': len(runnable),
          'ops_executed': 0, 'ops_skipped': 0, 'ops_repaired': 0, 'steered_away_from_known_findings': 0, 'oracle_checks': 0,
          'op_kinds': {}, 'labels': {}, 'per_configuration': {}, 'categories': {}, 'cases_per_configuration': cases,
          'max_program_length': maxlen, 'build_key': b.key, 'engine': 'rapidcheck (stateful programs, structural shrinking)',
          'compiler': sh([CXX, '--version']).stdout.splitlines()[0]}
    for c, r in zip(runnable, results):
        s = r['stats']
        if not s:
            continue
        ev['evaluations'] += s['evaluations']
        ev['distinct_nontrivial'] += s['distinct_nontrivial']
        for k in ('ops_executed', 'ops_skipped', 'ops_repaired', 'oracle_checks'):
            ev[k] += s[k]
        ev['steered_away_from_known_findings'] += s['guarded']
        if s.get('fault_runs'):
            ev['fault_injected_runs'] = ev.get('fault_injected_runs', 0) + s['fault_runs']
            ev['cases_with_two_or_more_allocations_in_target_op'] = ev.get('cases_with_two_or_more_allocations_in_target_op', 0) + s['fault_cases_with_two_or_more_allocations']
        for k, v in s['kinds'].items():
            ev['op_kinds'][k] = ev['op_kinds'].get(k, 0) + v
        for k, v in s['labels'].items():
            ev['labels'][k] = ev['labels'].get(k, 0) + v
        ev['per_configuration'][c['name']] = {'evaluations': s['evaluations'], 'nontrivial': s['distinct_nontrivial']}
        cat = cfggen.category(c)
        ev['categories'][cat] = ev['categories'].get(cat, 0) + s['evaluations']
        if s['samples'] and len(ev['samples']) < 5:
            ev['samples'].append({'configuration': s['descr'], 'program': s['samples'][0]})
    if fuzz_summary:
        ev['second_engine'] = fuzz_summary
        ev['evaluations'] += fuzz_summary['executions']
        ev['distinct_nontrivial'] += fuzz_summary['distinct_nontrivial']
    if fault_summary:
        ev['fault_sub_campaign'] = fault_summary
        ev['evaluations'] += fault_summary['evaluations']
        ev['distinct_nontrivial'] += fault_summary['distinct_nontrivial']
    if extra_cov:
        ev.update(extra_cov)
    if not ev['samples']:
        ev['samples'] = [{'note': 'no non-trivial sample recorded'}]
    shutil.rmtree(outdir, ignore_errors=True)
    return ev, violations, time.time() - t0
