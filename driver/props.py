"""Property dispatch: which runner decides which property, known-finding handling, VIOLATION lines, evidence."""
import json
import os
import sys
import time

import core

VERIF = core.VERIF

RULES = {
    'C01': 'rapidcheck-generated operation histories (construction, emplace_back in 4 source forms, fill, pop_back, erase(pos), erase(first,last), clear, reserve) interpreted totally against each parameter list; oracle: std::vector-of-tuples model compared after every op through operator[], const operator[], iteration, const iteration, front/back, structured bindings, get_fixed_size and the erase return value. NON-TRIVIAL: the history contains an emplace_back after an erase/pop/clear on a vector whose elements had unequal byte extents, or a reserve(n>capacity) on a partly filled vector. DISTINCT: distinct 64-bit hash of (configuration, program).',
    'C02': 'same history generator biased to saturation (FILL with a generated composition of the byte budget, last element takes all remaining bytes); oracle after every op: every object address obtained through get<I>/Span::data lies inside the ledger block containing data_begin(), memory_consumption() equals the bytes requested for that block, data_end()-data_begin() <= memory_consumption(), guard zones of all live blocks intact (ASan-poisoned so stray reads abort). NON-TRIVIAL: the vector reached size()==capacity() with stored payload == byte budget (fixed-only lists: reached full) on a list with Amax>1 or a VaryingSize. DISTINCT: hash of (configuration, program).',
    'C03': 'histories incl. copy/move/swap/element extraction on lists with AlignAs (non-monotone alignments, A above and below alignof(T)); ledger blocks are aligned to exactly the storage alignment and not to twice that; oracle after every op: address %% A == 0 for every plain object and every non-empty span of an AlignAs<T,A> parameter in every vector and standalone element. NON-TRIVIAL: the case relocated (erase of a non-last element, reserve>capacity, copy, move, element extraction) at least one element of a list with A>1. DISTINCT: hash of (configuration, program).',
    'C04': 'histories as C03 plus writes; oracle after every op: field extents in parameter order, pairwise disjoint, inside [ref.data_begin(), ref.data_end()), element begin/end = first field begin / last field end, elements in index order inside [data_begin(), data_end()), FixedSize span length == get_fixed_size == constructor argument, VaryingSize span length == count given at emplace, iterator.data()==reference.data_begin(). NON-TRIVIAL: a vector held >=2 elements of different byte size. DISTINCT: hash of (configuration, program).',
    'C05': 'histories as C03; oracle: (i) every field address equals an independent greedy layout (lowest A-aligned address after the previous field, element start = lowest Amax-aligned address after the previous element, first element at the block base); (ii) full vector without VaryingSize: bytes used rounded up to Amax == memory_consumption(); (iii) after reserve/copy/move/assignment memory_consumption() and the bytes requested from the ledger for the new block are <= max(before, source, fresh vector of same capacity and budget). NON-TRIVIAL: an element has both a field that needs padding and one that does not, or a footprint-relevant op (reserve>cap, copy/move assignment) ran on a list with Amax>1. DISTINCT: hash of (configuration, program).',
    'C06': 'histories over lists containing instrumented Tracked / TrackedMO objects (registry keyed by address, self-pointer canary) in plain, FixedSize and VaryingSize positions; oracle: construct-on-live, use/destroy of a dead object, canary mismatch and block-freed-with-live-objects are violations when they happen; after every op the set of live tracked objects inside ledger blocks == the set reachable through the public API; after destroying all containers no tracked object is alive. NON-TRIVIAL: the history relocated >=2 tracked objects (erase of a non-last element, reserve>capacity, copy, move, element extraction). DISTINCT: hash of (configuration, program).',
    'C07': 'histories incl. reserve, copy/move construction and assignment in both size directions, swap, clear, erase, element construction/assignment; every case ends with destruction of all containers; oracle (ledger allocator): every deallocate matches a live block with the same byte count, equal arena and same rebound value_type size; no block freed twice; ledger empty at the end. NON-TRIVIAL: the case performed >=1 reallocation on a list with a VaryingSize (two blocks per vector) or involved >=2 arenas. DISTINCT: hash of (configuration, program).',
}

LEVEL_NOTE = {}

HISTORY_PROPS = {'C01', 'C02', 'C03', 'C04', 'C05', 'C06', 'C07', 'C08', 'C09', 'C10', 'C11', 'C12', 'C13', 'C14', 'C16', 'C18'}


def known_for(pid):
    k = core.load_known()
    return [e for e in k.get('known', []) if e['property'] == pid]


def run_known_witnesses(pid):
    """Print a KNOWN-FINDING line for every listed finding whose witness still fails with the listed code."""
    import configs as cfggen
    lines = []
    for e in known_for(pid):
        wit = os.path.join(VERIF, e['witness'])
        status = witness_status(wit)
        if status[0] != 'pass' and (status[1] == e['failure_code'] or e.get('any_code')):
            lines.append('KNOWN-FINDING: property=%s %s (%s)' % (pid, e['summary'], e['id']))
        elif status[0] == 'pass':
            print('NOTE: witness of %s now passes (the defect seems repaired); it stays listed until the file is updated by hand' % e['id'])
        else:
            lines.append('KNOWN-FINDING: property=%s %s (%s; failure code now %s)' % (pid, e['summary'], e['id'], status[1]))
    return lines


def witness_status(path):
    import configs as cfggen
    hdr = {}
    for line in open(path):
        w = line.split(None, 1)
        if len(w) == 2 and w[0] in ('property', 'config', 'code', 'runner'):
            hdr[w[0]] = w[1].strip()
    cfg = cfggen.parse_name(hdr['config'])
    b = core.Builder()
    built = b.build_all([cfg])
    binp, log = built[cfg['name']]
    if binp is None:
        return ('fail', hdr['property'] + '.does_not_compile', log)
    return core.replay_once(binp, path)


def replay(path):
    hdr = {}
    for line in open(path):
        w = line.split(None, 1)
        if len(w) == 2 and w[0] in ('property', 'config', 'code', 'runner'):
            hdr[w[0]] = w[1].strip()
    pid = hdr.get('property', 'C00')
    runner = hdr.get('runner')
    if runner:
        import special
        return special.replay(runner, path, hdr)
    verdict, code, out = witness_status(path)
    if verdict == 'pass':
        print('replay passes: %s' % path)
        return 0
    print(out[-3000:])
    print('VIOLATION property=%s replay=%s' % (pid, path))
    return 1


def run(pid, tier, seed):
    t0 = time.time()
    if pid in HISTORY_PROPS:
        kf_lines = run_known_witnesses(pid)
        ev, violations, wall = core.run_history_property(pid, tier, seed, RULES.get(pid, 'see DESIGN.md'))
        for l in kf_lines:
            print(l)
        ev['known_findings_reported'] = len(kf_lines)
        core.write_evidence(pid, tier, seed, 'exploration', ev, time.time() - t0, len(violations), core.ASSUMPTIONS)
        for name, code, path in violations:
            print('failure in configuration %s: %s' % (name, code))
            print('VIOLATION property=%s replay=%s' % (pid, path))
        if not violations:
            print('%s %s: held on %d generated cases (%d distinct non-trivial) over %d configurations in %.1fs' %
                  (pid, tier, ev['evaluations'], ev['distinct_nontrivial'], ev['configurations'], time.time() - t0))
        return 1 if violations else 0
    import special
    return special.run(pid, tier, seed)
