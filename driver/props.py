"""Property dispatch: which runner decides which property, known-finding handling, VIOLATION lines, evidence."""
import json
import os
import sys
import time

import core

VERIF = core.VERIF

RULES = {
    'C01': 'rapidcheck-generated operation histories (construction, emplace_back in 4 source forms plus converting contiguous sources (std::vector<U> as range, pointer or vector iterator with U another arithmetic type that represents every value exactly: same size other category, wider, narrower), fill, pop_back, erase(pos), erase(first,last), clear, reserve) interpreted totally against each parameter list; oracle: std::vector-of-tuples model compared after every op through operator[], const operator[], iteration, const iteration, front/back, structured bindings, get_fixed_size, the erase return value and a const_iterator that denoted another vector before it was assigned from begin()+i. NON-TRIVIAL: the history contains an emplace_back after an erase/pop/clear on a vector whose elements had unequal byte extents, or a reserve(n>capacity) on a partly filled vector. DISTINCT: distinct 64-bit hash of (configuration, program).',
    'C02': 'same history generator biased to saturation (FILL with a generated composition of the byte budget, last element takes all remaining bytes); oracle after every op: every object address obtained through get<I>/Span::data lies inside the ledger block containing data_begin(), memory_consumption() equals the bytes requested for that block, data_end()-data_begin() <= memory_consumption(), guard zones of all live blocks intact (ASan-poisoned so stray reads abort). NON-TRIVIAL: the vector reached size()==capacity() with stored payload == byte budget (fixed-only lists: reached full) on a list with Amax>1 or a VaryingSize. DISTINCT: hash of (configuration, program).',
    'C03': 'histories incl. copy/move/swap/element extraction on lists with AlignAs (non-monotone alignments, A above and below alignof(T)); ledger blocks are aligned to exactly the storage alignment and not to twice that; oracle after every op: address %% A == 0 for every plain object and every non-empty span of an AlignAs<T,A> parameter in every vector and standalone element. NON-TRIVIAL: the case relocated (erase of a non-last element, reserve>capacity, copy, move, element extraction) at least one element of a list with A>1. DISTINCT: hash of (configuration, program).',
    'C04': 'histories as C03 plus writes; oracle after every op: field extents in parameter order, pairwise disjoint, inside [ref.data_begin(), ref.data_end()), element begin/end = first field begin / last field end, elements in index order inside [data_begin(), data_end()), FixedSize span length == get_fixed_size == constructor argument, VaryingSize span length == count given at emplace, iterator.data()==reference.data_begin(), dereferencing a const-qualified iterator object and a const_iterator of the const vector (operator*, operator->, data()) denotes the same addresses and span lengths as operator[]; emplace_back also from converting contiguous sources of other item size. NON-TRIVIAL: a vector held >=2 elements of different byte size. DISTINCT: hash of (configuration, program).',
    'C05': 'histories as C03; oracle: (i) every field address equals an independent greedy layout (lowest A-aligned address after the previous field, element start = lowest Amax-aligned address after the previous element, first element at the block base); (ii) full vector without VaryingSize: bytes used rounded up to Amax == memory_consumption(); (ii-b) block census: a list without VaryingSize never holds an element address table, at most one table per vector and one data block per vector/element stay allocated between operations; (iii) after reserve/copy/move/assignment memory_consumption() and the bytes requested from the ledger for the new block are <= max(before, source, fresh vector of same capacity and budget). NON-TRIVIAL: an element has both a field that needs padding and one that does not, or a footprint-relevant op (reserve>cap, copy/move assignment) ran on a list with Amax>1. DISTINCT: hash of (configuration, program).',
    'C06': 'histories over lists containing instrumented Tracked / TrackedMO objects (registry keyed by address, self-pointer canary) in plain, FixedSize and VaryingSize positions; oracle: construct-on-live, use/destroy of a dead object, canary mismatch and block-freed-with-live-objects are violations when they happen; after every op the set of live tracked objects inside ledger blocks == the set reachable through the public API; after destroying all containers no tracked object is alive; fault sub-campaign: the fault-enumeration mode of C17 (last operation re-run once per allocation with that allocation throwing) restricted to lifetime events. NON-TRIVIAL: the history relocated >=2 tracked objects (erase of a non-last element, reserve>capacity, copy, move, element extraction). DISTINCT: hash of (configuration, program).',
    'C07': 'histories incl. reserve, copy/move construction and assignment in both size directions, swap, clear, erase, element construction/assignment; every case ends with destruction of all containers; oracle (ledger allocator): every deallocate matches a live block with the same byte count, equal arena and same rebound value_type size; no block freed twice; ledger empty at the end; allocator kinds: stateful non-propagating, always-equal, fully propagating and, for two lists, every combination of the three propagation traits; fault sub-campaign: the fault-enumeration mode of C17 restricted to checking-allocator events. NON-TRIVIAL: the case performed >=1 reallocation on a list with a VaryingSize (two blocks per vector) or involved >=2 arenas. DISTINCT: hash of (configuration, program).',
}

RULES.update({
    'C08': 'histories (construction with arena ids, copy/move construction and assignment, swap under D8, element construction/assignment/swap with allocator arguments) over 5 representative lists x all 8 combinations of the propagate_on_container_* traits x is_always_equal {false,true}; oracle: get_allocator() arena of every operand after every op equals the arena predicted from std::allocator_traits (select_on_container_copy_construction returns a distinguishable arena), every data block located through data_begin()/the element is owned by an equal arena, unequal non-propagating move assignment does not take over the source block and move-constructs every tracked object exactly once; the ledger reports a deallocate through a non-equal arena. NON-TRIVIAL: an assignment or swap between operands of unequal arenas on a stateful allocator kind, or the element-wise move path. DISTINCT: hash of (configuration, program).',
    'C09': 'histories of copy/move construction, copy/move assignment (targets: default-constructed, empty, smaller, larger, moved-from), swap, self-assignment, self-swap, interleaved with writes/emplace/erase on either operand; oracle: model twin per vector (copy -> independent equal value, move -> target takes the former value, moved-from vectors only cleared/assigned/swapped/destroyed, size()==0 && empty() after clear() and from then on an ordinary empty vector with the capacity it reports; copies of objects with a user-provided copy constructor but trivial move constructor are one generation older than their source), all slots compared with their models after every op so a mutation of one operand showing through in another is seen. NON-TRIVIAL: the source was partly filled (0<size<capacity) or a moved-from vector was reused. DISTINCT: hash of (configuration, program).',
    'C10': 'histories dominated by reserve(n, b) with n below/equal/above capacity and b >= stored payload, on empty, partly filled and full vectors, repeated; oracle: snapshot before/after - capacity never decreases, size, every value and get_fixed_size unchanged; n<=capacity(): capacity, data_begin, memory_consumption unchanged and zero allocator traffic; n>capacity(): capacity()==n; later FILL up to the new limits runs under ASan with poisoned guard zones; fault sub-campaign: fault-enumeration mode with reserve() as the operation that meets the failing allocation (capacity, size and values as before). NON-TRIVIAL: reserve(n>capacity) on a partly filled vector or >=2 effective reserves in one history. DISTINCT: hash of (configuration, program).',
    'C11': 'histories with writes through 6 access paths (operator[], *it, it[k], structured binding, it->, front/back/end()-k) read back through all others after every op (incl. const paths), reference assignment by copy (from reference and const_reference) and by move (rvalue reference), swap, iter_swap, std::rotate / std::reverse / std::swap_ranges on ranges of equal-shaped elements compared with the same algorithm on the model, full iterator arithmetic/comparison table over all index pairs in [0,size], reads through const-qualified iterator objects; lists with a value type whose user-provided assignment operator stamps the object (trivial copy construction/destruction): an object whose value changes in an assignment/swap/permutation must carry a stamp newer than the operation. NON-TRIVIAL: a write, assignment, swap or permutation involving positions i != j. DISTINCT: hash of (configuration, program).',
    'C12': 'histories of ContiguousElement construction from const_reference / lvalue reference (copy) and rvalue reference (move), copy/move construction (plain and allocator-extended, equal and unequal arenas), copy/move assignment between elements of different varying sizes, swap, self assignment and self swap, element<->reference assignment, writes to element or vector; oracle: element model twin compared through get<I>(element), const element, bound const_reference and structured bindings after every op, vector models compared too (independence), element storage is a ledger block distinct from every vector data block. NON-TRIVIAL: assignment between elements of different varying sizes or unequal arenas, element<->reference assignment, or allocator-extended move with an unequal allocator. DISTINCT: hash of (configuration, program).',
    'C13': 'pairs/triples of vectors and elements built by emplace, CLONE (same logical content, different capacity/arena/memory junk), MUTATE (exactly one item changed), pop/erase (strict prefixes), incl. empty operands and different fixed sizes; oracle: ==/!= in every form (vector/vector incl. another allocator type, reference x const_reference x value_type in all 9 combinations) equals model equality, reflexive, symmetric, != is the negation; every program is executed twice on memory with different junk patterns and must give identical results; one element in four is flat (all objects equal) and the second operand is preferably one with as many objects split differently over the fields, so that operands with identical byte images and different contents occur. NON-TRIVIAL: equal-content operands in distinct memory, strict-prefix pairs, or elements of different sizes. DISTINCT: hash of (configuration, program).',
    'C14': 'same operand generator with value domain {0,1,2} (ties in leading fields); oracle (laws only, from the library\'s own answers): a>b == b<a, a<=b == !(b<a), a>=b == !(a<b), irreflexive, asymmetric, transitive over triples, a<b => a!=b, a==b => neither ordered, identical answers for all operand kinds, vector< equals std::lexicographical_compare over element references under the element-level <; executed twice with different memory junk. NON-TRIVIAL: a strictly ordered pair with a tie in some field, or ordered vectors. DISTINCT: hash of (configuration, program).',
    'C16': 'C01 histories plus swap and move construction; oracle: addresses of every field of every surviving element, data_begin(), capacity() and the ledger allocation counters snapshotted before each op: emplace_back within capacity, pop_back, clear, reserve(n<=capacity) keep everything and allocate nothing; erase keeps the elements in front of the erased position and allocates nothing; swap / move construction allocate nothing and hand over the block unchanged. NON-TRIVIAL: >=3 address-preserving ops on a vector with >=2 elements including an erase in the middle of >=3 elements. DISTINCT: hash of (configuration, program).',
    'C18': 'ways to become empty (default-constructed, capacity 0, never filled, emptied by pop_back/erase/clear, copy/move of an empty vector) followed by clear, erase(begin,end), reserve, compare, copy, swap, destroy, reserve+emplace; oracle: size()==0, empty(), begin()==end(), data_begin()==data_end() and null or inside/one past the ledger block, model equality afterwards, no sanitizer report (guards poisoned), identical behaviour under two different memory junk patterns. NON-TRIVIAL: an emplace_back into a vector that was empty after a history (or has capacity 0 / a VaryingSize list). DISTINCT: hash of (configuration, program).',
})

RULES['C17'] = 'rapidcheck generates a history prefix and a target operation from {construction, reserve, copy construction, copy assignment, move assignment, element construction from a reference, element copy/move construction, element copy/move assignment}; a counting run learns that the target performs m allocations, then FOR EVERY k in 1..m the case is re-run in a forked child with the k-th allocation throwing std::bad_alloc (fault enumeration per case, exhaustive over k); oracle: the child neither terminates nor crashes; no ledger event (double free, wrong size/arena) and no lifetime event; operands the operation does not assign to (incl. the source of reserve / copy construction) equal their pre-operation model; assigned-to operands are valid: iteration yields size() elements, live tracked objects == reachable ones, a fresh value can be assigned to them (stealing move, move from an unequal allocator, or copy - chosen by the case) and read back; after destroying everything the ledger and the object registry are empty. evaluations = generated (prefix,target) cases, each expanded into m injected runs (reported as fault_injected_runs). NON-TRIVIAL: the target op performed >=2 allocations (VaryingSize lists: block + address table) or >=1 on a list holding tracked objects. DISTINCT: hash of (configuration, program).'

LEVEL_NOTE = {}

HISTORY_PROPS = {'C17', 'C01', 'C02', 'C03', 'C04', 'C05', 'C06', 'C07', 'C08', 'C09', 'C10', 'C11', 'C12', 'C13', 'C14', 'C16', 'C18'}


def known_for(pid):
    k = core.load_known()
    return [e for e in k.get('known', []) if e['property'] == pid]


def run_known_witnesses(pid):
    """Print a KNOWN-FINDING line for every listed finding whose witness still fails with the listed code."""
    import configs as cfggen
    lines = []
    for e in known_for(pid):
        wit = os.path.join(VERIF, e['witness'])
        status = witness_status(wit, e.get('build', 'asan'))
        if status[0] != 'pass' and (status[1] == e['failure_code'] or e.get('any_code')):
            lines.append('KNOWN-FINDING: property=%s %s (%s)' % (pid, e['summary'], e['id']))
        elif status[0] == 'pass':
            print('NOTE: witness of %s now passes (the defect seems repaired); it stays listed until the file is updated by hand' % e['id'])
        else:
            lines.append('KNOWN-FINDING: property=%s %s (%s; failure code now %s)' % (pid, e['summary'], e['id'], status[1]))
    return lines


def witness_status(path, build='asan'):
    import configs as cfggen
    hdr = {}
    for line in open(path):
        w = line.split(None, 1)
        if len(w) == 2 and w[0] in ('property', 'config', 'code', 'runner', 'view', 'build'):
            hdr[w[0]] = w[1].strip()
    cfg = cfggen.parse_name(hdr['config'])
    b = core.Builder(tag=hdr.get('build', build))
    built = b.build_all([cfg])
    binp, log = built[cfg['name']]
    if binp is None:
        return ('fail', hdr['property'] + '.does_not_compile', log)
    return core.replay_once(binp, path, int(hdr.get('view', 0)))


def replay(path):
    hdr = {}
    for line in open(path):
        w = line.split(None, 1)
        if len(w) == 2 and w[0] in ('property', 'config', 'code', 'runner', 'report_as'):
            hdr[w[0]] = w[1].strip()
    pid = hdr.get('report_as') or hdr.get('property', 'C00')
    runner = hdr.get('runner')
    if runner:
        import special
        return special.replay(runner, path, hdr)
    verdict, code, out = witness_status(path)
    if verdict == 'pass':
        print('replay passes: %s' % path)
        return 0
    print(out[-3000:])
    print('VIOLATION property=%s replay=%s' % (pid, path))
    return 1


def run_regressions(pid):
    """seconds-long replay tier: the witnesses of repaired defects ('fixed' entries suppress nothing) must pass"""
    import glob
    out = []
    files = sorted(glob.glob(os.path.join(VERIF, 'findings', 'regress', pid + '-*.replay')))
    for f in files:
        verdict, code, log = witness_status(f)
        if verdict != 'pass':
            out.append((os.path.basename(f), code, f))
    return len(files), out


def run(pid, tier, seed):
    t0 = time.time()
    if pid in HISTORY_PROPS:
        kf_lines = run_known_witnesses(pid)
        nreg, reg_fail = run_regressions(pid)
        ev, violations, wall = core.run_history_property(pid, tier, seed, RULES.get(pid, 'see DESIGN.md'))
        violations = [(n, c, p) for n, c, p in reg_fail] + violations
        ev['regression_replays_run'] = nreg
        for l in kf_lines:
            print(l)
        ev['known_findings_reported'] = len(kf_lines)
        level = 'fault_enumeration' if pid == 'C17' else 'exploration'
        if pid == 'C17':
            ev['evaluations_note'] = 'evaluations counts generated cases; every case is additionally run once per allocation of its target operation with that allocation failing (fault_injected_runs)'
        core.write_evidence(pid, tier, seed, level, ev, time.time() - t0, len(violations), core.ASSUMPTIONS)
        for name, code, path in violations:
            print('failure in configuration %s: %s' % (name, code))
            print('VIOLATION property=%s replay=%s' % (pid, path))
        if not violations:
            print('%s %s: held on %d generated cases (%d distinct non-trivial) over %d configurations in %.1fs' %
                  (pid, tier, ev['evaluations'], ev['distinct_nontrivial'], ev['configurations'], time.time() - t0))
        return 1 if violations else 0
    import special
    return special.run(pid, tier, seed)
