#!/usr/bin/env python3
"""Regenerates MANIFEST.json from the table below (kept in code so it is always schema-valid)."""
import json
import os

VERIF = os.path.dirname(os.path.dirname(os.path.abspath(__file__)))

CHECKS = {
    'C01': dict(level='exploration', technique='stateful property-based testing (rapidcheck) against a reference model',
                text='rapidcheck-generated operation histories over ~60 parameter lists, compared with a std::vector-of-tuples model after every operation through every access path; failures shrink to minimal programs. Exploration: shows the property on the generated histories, cannot prove it for all.',
                design='2 C01'),
}

NOT_YET = 'check under construction in this session; not claimed until it is built and validated'


def main():
    props = [json.loads(l)['id'] for l in open(os.path.join(VERIF, 'properties.jsonl'))]
    checks = []
    for pid in props:
        c = CHECKS.get(pid)
        if not c:
            continue
        checks.append({
            'property_id': pid,
            'quick_cmd': './check %s --tier quick' % pid,
            'thorough_cmd': './check %s --tier thorough' % pid,
            'evidence_file': 'evidence/%s.json' % pid,
            'replay_cmd_template': './check --replay {path}',
            'engine': c.get('engine', 'rapidcheck'),
            'level_claimed': {'category': c['level'], 'text': c['text'], 'design_ref': 'DESIGN.md section ' + c['design']},
            'level_note': c.get('note', 'trusted base: the harness in /verif/harness (ledger allocator, instrumented value types, model, interpreter), clang++ 14 with ASan/UBSan, rapidcheck; input domain limited to the documented preconditions D1-D15 (DESIGN.md 0.1)'),
            'technique': c['technique'],
        })
    m = {
        'version': 1,
        'setup_cmd': './setup.sh',
        'hooks': {'guard': 'CNTGS_VERIF', 'enable': 'no source hooks are needed: all observation points are reachable through the public API, the allocator parameter and the value types; checks compile the harness against /repo/src as it is', 'baseline_off_cmd': 'cmake --build /repo/_build -j16 && ctest --test-dir /repo/_build -j8 --timeout 900', 'source_commits': [], 'add_only': True},
        'engines': [
            {'name': 'engine_rc', 'path': 'harness/engine_rc.cpp', 'serves_properties': sorted(CHECKS), 'kind_free_text': 'rapidcheck program generator + shrinker, linked with one generated configuration TU per parameter list'},
        ],
        'checks': checks,
        'notes': 'see DESIGN.md; ./check <ID> --tier quick|thorough; ./check --replay <file>',
        'not_applicable': [{'property_id': p, 'reason': NOT_YET} for p in props if p not in CHECKS],
    }
    with open(os.path.join(VERIF, 'MANIFEST.json'), 'w') as f:
        json.dump(m, f, indent=1)
        f.write('\n')


if __name__ == '__main__':
    main()
