#!/usr/bin/env python3
"""Regenerates MANIFEST.json from the table below (kept in code so it is always schema-valid)."""
import json
import os

VERIF = os.path.dirname(os.path.dirname(os.path.abspath(__file__)))

HIST = 'trusted base: the harness in /verif/harness (ledger allocator, instrumented value types, model, interpreter), clang++ 14 with ASan/UBSan, rapidcheck; input domain limited to the documented preconditions D1-D16 (DESIGN.md 0.1)'
CHECKS = {
    'C01': dict(level='exploration', technique='stateful property-based testing (rapidcheck) against a std::vector-of-tuples reference model',
                text='generated operation histories over ~60 parameter lists (curated + seeded random), compared with a reference model after every operation through every access path; failures shrink to minimal programs. Exploration: decides the property on the generated histories only.', design='2 C01'),
    'C02': dict(level='exploration', technique='stateful property-based testing with a bounds oracle (ledger allocator block ranges, poisoned guard zones under ASan)',
                text='saturating histories (capacity and byte budget exhausted with generated size compositions) on alignment-heavy lists; every object address must lie inside the block the allocator handed out. Exploration of size distributions, not a proof of the worst-case padding bound.', design='2 C02'),
    'C03': dict(level='exploration', technique='stateful property-based testing with an address-residue oracle on exactly-aligned allocator blocks',
                text='histories incl. relocation (erase, reserve, copy, move, element extraction) on lists with non-monotone AlignAs; every AlignAs object address is checked modulo A after every op; block bases are aligned to exactly the storage alignment.', design='2 C03'),
    'C04': dict(level='exploration', technique='stateful property-based testing with an interval (order / containment / overlap / span length) oracle',
                text='after every op the extents of all fields of all elements are collected and checked for order, disjointness, containment and span lengths against the model.', design='2 C04'),
    'C05': dict(level='exploration', technique='differential testing against an independent greedy layout model plus metamorphic footprint bound (ledger byte counts)',
                text='field addresses are compared with an independent greedy layout; footprints after reserve/copy/move/assignment are bounded by max(before, source, fresh). One listed known finding (KF-1) is reported, not suppressed silently.', design='2 C05'),
    'C06': dict(level='exploration', technique='stateful property-based testing with instrumented value types (address-keyed lifetime registry, self-pointer canary) and a live-set sweep',
                text='every construction/destruction/assignment of Tracked objects is checked when it happens; after every op live objects in container memory must equal the objects reachable through the API.', design='2 C06'),
    'C07': dict(level='exploration', technique='stateful property-based testing with a ledger allocator (allocate/deallocate pairing, sizes, arenas, leak check at end of case)',
                text='every block must be returned exactly once with its size through an equal allocator; nothing may remain allocated after all containers are destroyed.', design='2 C07'),
    'C08': dict(level='exploration', technique='property-based testing over the matrix of 8 propagation-trait combinations x is_always_equal with a predicted-allocator oracle',
                text='get_allocator() after every copy/move/swap is compared with the arena predicted from std::allocator_traits; ownership of every data block is checked against the owning container.', design='2 C08'),
    'C09': dict(level='exploration', technique='stateful property-based testing against a value-semantics reference model (independent model twins per vector)',
                text='copy/move/swap/self-assignment histories with later mutation of either operand; all vectors are compared with their model twins after every op.', design='2 C09'),
    'C10': dict(level='exploration', technique='stateful property-based testing with before/after snapshots around every reserve',
                text='reserve-dominated histories on empty, partly filled and full vectors; size, values, fixed sizes, capacity monotonicity, no-op behaviour and allocator traffic are compared with the snapshot.', design='2 C10'),
    'C11': dict(level='exploration', technique='stateful property-based testing: writes through one access path read back through all others; std algorithms compared with the same algorithm on the model',
                text='reference assignment/swap/iter_swap/rotate/reverse/swap_ranges and a full iterator arithmetic table are compared with the model after every op.', design='2 C11'),
    'C12': dict(level='exploration', technique='stateful property-based testing against element model twins, with ledger-based storage-independence check',
                text='ContiguousElement construction/assignment/swap histories with equal and unequal allocators and different varying sizes; elements and vectors are compared with independent models.', design='2 C12'),
    'C13': dict(level='exploration', technique='property-based testing against model equality plus a metamorphic re-run on memory with different junk contents',
                text='==/!= in all operand-kind combinations must equal model equality and must not change when the same program runs on differently pre-filled memory.', design='2 C13'),
    'C14': dict(level='exploration', technique='property-based testing of algebraic laws (strict-order axioms, derived operators, operand-kind invariance) plus junk-metamorphic re-run',
                text='laws are checked on generated pairs/triples over a 3-value domain; vector< is compared with std::lexicographical_compare under the element-level <.', design='2 C14'),
    'C15': dict(level='exploration', technique='property-based testing over a generated matrix (source type x stored type x source form x parameter kind) with a per-item conversion oracle', engine='rapidcheck (engine_c15)',
                text='for every cell rapidcheck generates source values and lengths; stored[i] must equal static_cast<T>(src[i]); copy/move counts and consumed-item counts are checked.', design='2 C15',
                note='trusted base: harness/c15.hpp value types and forms, clang++ 14 ASan/UBSan, rapidcheck'),
    'C16': dict(level='exploration', technique='stateful property-based testing with address and allocation-counter snapshots around every operation',
                text='addresses of all surviving objects, data_begin(), capacity() and the ledger counters are compared before/after each op according to the kind of op.', design='2 C16'),
    'C17': dict(level='fault_enumeration', technique='property-based generation of (history, target operation) with exhaustive fail-the-k-th-allocation enumeration per case in forked children',
                text='for every generated case every allocation of the target operation is failed in turn (k = 1..m); the oracle checks no termination, no leak/double free, exactly-once destruction, unchanged sources and usable operands.', design='2 C17'),
    'C18': dict(level='exploration', technique='stateful property-based testing of empty-state histories with junk-controlled memory and a metamorphic re-run',
                text='all ways of becoming empty followed by all operations applicable to an empty vector, under ASan with poisoned guards, executed twice with different memory junk.', design='2 C18'),
    'C19': dict(level='exploration', technique='property-based generation of multi-threaded reader schedules executed under ThreadSanitizer with a precomputed-result oracle', engine='rapidcheck (engine_c19) + TSan',
                text='generated schedules of const operations from up to 16 threads on shared vectors/elements; ThreadSanitizer must report no race and every thread must reproduce the single-threaded results.', design='2 C19',
                note='trusted base: ThreadSanitizer (clang 14), harness/c19.hpp; dynamic race detection covers executed paths only'),
    'C20': dict(level='exploration', technique='generated instantiation matrix (operation x parameter list x allocator kind x toolchain) with the compiler as oracle, failing groups bisected', engine='python generator + clang++/g++ -fsyntax-only',
                text='every documented operation is instantiated for generated lists of every category and four allocator kinds; a requirement predicate over the value types decides which cells must compile. The thorough tier enumerates the whole generated matrix.', design='2 C20',
                note='trusted base: gen/units_c20.py (operation list and requirement predicate), clang++ 14 / g++ 12'),
}

NOT_YET = 'check under construction in this session; not claimed until it is built and validated'


def main():
    props = [json.loads(l)['id'] for l in open(os.path.join(VERIF, 'properties.jsonl'))]
    checks = []
    for pid in props:
        c = CHECKS.get(pid)
        if not c:
            continue
        checks.append({
            'property_id': pid,
            'quick_cmd': './check %s --tier quick' % pid,
            'thorough_cmd': './check %s --tier thorough' % pid,
            'evidence_file': 'evidence/%s.json' % pid,
            'replay_cmd_template': './check --replay {path}',
            'engine': c.get('engine', 'rapidcheck'),
            'level_claimed': {'category': c['level'], 'text': c['text'], 'design_ref': 'DESIGN.md section ' + c['design']},
            'level_note': c.get('note', HIST),
            'technique': c['technique'],
        })
    m = {
        'version': 1,
        'setup_cmd': './setup.sh',
        'hooks': {'guard': 'CNTGS_VERIF', 'enable': 'no source hooks are needed: all observation points are reachable through the public API, the allocator parameter and the value types; checks compile the harness against /repo/src as it is', 'baseline_off_cmd': '/verif/tools/baseline.sh', 'source_commits': [], 'add_only': True},
        'engines': [
            {'name': 'engine_rc', 'path': 'harness/engine_rc.cpp', 'serves_properties': [p for p in sorted(CHECKS) if p not in ('C15', 'C19', 'C20')], 'kind_free_text': 'rapidcheck program generator + shrinker (fork isolation for crash shrinking, fault enumeration for C17), linked with one generated configuration TU per parameter list'},
            {'name': 'engine_c15', 'path': 'harness/engine_c15.cpp', 'serves_properties': ['C15'], 'kind_free_text': 'rapidcheck over the generated source-form matrix'},
            {'name': 'engine_c19', 'path': 'harness/engine_c19.cpp', 'serves_properties': ['C19'], 'kind_free_text': 'rapidcheck schedule generator, ThreadSanitizer build'},
            {'name': 'units_c20', 'path': 'gen/units_c20.py', 'serves_properties': ['C20'], 'kind_free_text': 'instantiation-matrix generator, compilers as oracle'},
        ],
        'checks': checks,
        'notes': 'see DESIGN.md; ./check <ID> --tier quick|thorough; ./check --replay <file>',
        'not_applicable': [{'property_id': p, 'reason': NOT_YET} for p in props if p not in CHECKS],
    }
    with open(os.path.join(VERIF, 'MANIFEST.json'), 'w') as f:
        json.dump(m, f, indent=1)
        f.write('\n')


if __name__ == '__main__':
    main()
