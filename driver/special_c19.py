"""C19 runner: generated reader schedules under ThreadSanitizer."""
import json
import os
import shutil
import subprocess
import sys
import time
from concurrent.futures import ThreadPoolExecutor

import core

VERIF = core.VERIF
sys.path.insert(0, os.path.join(VERIF, 'gen'))
import configs as cg  # noqa: E402

TSAN = ['-fsanitize=thread']
RULE = ('rapidcheck generates schedules: 2..T threads (quick T=8, thorough T=16), each with a list of up to 12 const operations on two shared vectors and one shared ContiguousElement - size/capacity/empty/data_begin/data_end/memory_consumption/get_fixed_size/get_allocator, operator[]+get<I> reads of every field, front/back, const iteration and iterator arithmetic, ==/!=/</<= between the shared vectors and between references, copy construction of the shared vector, element construction from a const reference and element/reference comparison, reads and copies of the shared element, copy assignment of thread-private vectors and elements from the shared const ones (into a smaller/larger private copy and into a default-constructed vector), reads of and element construction from a shared const-qualified object of the mutable reference type, private vectors that emplace_back the fields (get<I>) of the shared const element / const_reference - plus arbitrary mutating histories (pop_back, erase, reserve, clear) on thread-private copies made from the shared vector; threads start behind one spin barrier and never synchronise otherwise; oracle: ThreadSanitizer reports no data race (halt_on_error, exit code 66) and every thread computes the digest precomputed single-threaded. NON-TRIVIAL: >=2 threads run the same kind of operation on the shared objects and at least one thread copies the shared vector / builds an element from it / mutates a private copy. DISTINCT: hash of (seed, per-thread op lists).')


def pool(tier, seed):
    names = ['u32_float__A0000', 'u32_sza8_Vfloat__A0000', 'Ffloat_u32_Ffloat__A0000', 'Ffloat_u32_sza8_Vfloat__A0000',
             'Fstring_string__A0000', 'sza8_Vstring_string__A0000', 'Fuptr_uptr__A0000', 'sza8_Vuptr_uptr__A0000',
             'u8_Vu8_u32a4__A0000', 'u32_Ffloata32__A0000', 'Fu8_u8a4_Fu8__A0000', 'u8_Vstring__A0000',
             'u8_Vu16_u8_VB5__A0000', 'B3_u8_B5__A0000', 'cptr_Fi32_bool__A0000', 'Fu8_Fstring_Fu16_u8__A0000']
    allp = {c['name']: c for c in cg.core_pool()}
    sel = [allp[n] for n in names if n in allp]
    def racy(c):
        d = dict(c)
        d['racy'] = True
        return d
    if tier == 'quick':
        return sel[:8] + [racy(c) for c in (sel[1], sel[2], sel[4], sel[5])]
    rnd = [c for c in cg.random_pool(seed * 13 + 1, 12) if 'tracked' not in c['tags']]
    return sel + rnd + [racy(c) for c in sel[:10]]


def build(cfgs):
    b = core.Builder(harness='c19', tag='tsan')
    flags = core.BASE_FLAGS + TSAN + ['-I' + os.path.join(VERIF, 'harness'), '-I' + os.path.join(core.REPO, 'src')]
    eng = os.path.join(b.dir, 'engine_c19.o')
    if not os.path.exists(eng):
        r = core.sh([core.CXX] + flags + ['-c', os.path.join(VERIF, 'harness', 'engine_c19.cpp'), '-o', eng])
        if r.returncode != 0:
            raise RuntimeError(r.stdout)

    def one(c):
        binp = os.path.join(b.dir, 'c19_' + c['name'] + ('_racy' if c.get('racy') else ''))
        if os.path.exists(binp):
            return binp, ''
        src = binp + '.cpp'
        open(src, 'w').write(cg.emit_tu_c19(c, bool(c.get('racy'))))
        r = core.sh([core.CXX] + flags + ['-c', src, '-o', binp + '.o'])
        if r.returncode != 0:
            return None, r.stdout
        r = core.sh([core.CXX] + core.BASE_FLAGS + TSAN + [eng, binp + '.o', '-lrapidcheck', '-o', binp + '.tmp'])
        if r.returncode != 0:
            return None, r.stdout
        os.replace(binp + '.tmp', binp)
        return binp, ''

    with ThreadPoolExecutor(core.JOBS) as ex:
        res = list(ex.map(one, cfgs))
    return b, res


ENV = dict(os.environ, TSAN_OPTIONS='halt_on_error=1 exitcode=66 second_deadlock_stack=1')


def run(tier, seed):
    t0 = time.time()
    pid = 'C19'
    cfgs = pool(tier, seed)
    cases = 40 if tier == 'quick' else 200
    threads = 8 if tier == 'quick' else 16
    b, res = build(cfgs)
    core.prune_build_cache()
    d = os.path.join(b.dir, 'out_c19_%d' % os.getpid())
    os.makedirs(d, exist_ok=True)
    violations = []

    def work(i):
        binp, log = res[i]
        c = cfgs[i]
        if binp is None:
            return ('compile', log, None)
        tag = c['name'] + ('_racy' if c.get('racy') else '')
        st = os.path.join(d, tag + '.json')
        cur = os.path.join(d, tag + '.plan')
        # the schedules of one configuration run one after the other: each already uses up to 16 threads
        r = subprocess.run([binp, '--cases', str(cases), '--threads', str(threads), '--seed', str(core.shard_seed(seed, c['name'], pid)),
                            '--stats', st, '--current', cur], stdout=subprocess.PIPE, stderr=subprocess.STDOUT, text=True, env=ENV)
        s = json.load(open(st)) if os.path.exists(st) else None
        return (r.returncode, r.stdout[-6000:], s)

    with ThreadPoolExecutor(4) as ex:
        outs = list(ex.map(work, range(len(cfgs))))
    ev = {'evaluations': 0, 'distinct_nontrivial': 0, 'rule': RULE, 'samples': [], 'configurations': 0, 'thread_executions': 0,
          'max_threads': threads, 'schedules_per_configuration': cases, 'build_key': b.key}
    for c, o in zip(cfgs, outs):
        rc, out, s = o
        if rc == 'compile':
            p = os.path.join(d, 'compile_%s.log' % c['name'])
            open(p, 'w').write('property C19\nrunner c19\nconfig %s\ncode C19.does_not_compile\n' % c['name'] + '\n'.join('# ' + l for l in out.splitlines()[:60]) + '\n')
            violations.append((c['name'], 'C19.does_not_compile', core.save_violation_replay(pid, p)))
            continue
        ev['configurations'] += 1
        if s:
            ev['evaluations'] += s['evaluations']
            ev['distinct_nontrivial'] += s['distinct_nontrivial']
            ev['thread_executions'] += s['thread_runs']
            for smp in s['samples'][:1]:
                if len(ev['samples']) < 5:
                    ev['samples'].append({'configuration': cg.descr(c), 'schedule': smp})
        if rc != 0:
            cur = os.path.join(d, c['name'] + ('_racy' if c.get('racy') else '') + '.plan')
            if os.path.exists(cur):
                with open(cur, 'a') as f:
                    f.write('\n'.join('# ' + l for l in out.splitlines() if 'WARNING: ThreadSanitizer' in l or ' #0 ' in l or ' #1 ' in l or 'Location' in l or 'mismatch' in l)[:4000] + '\n')
                # confirm: a race is reported when both accesses happen in the run; replay the schedule 3 times
                fails = sum(1 for _ in range(3) if replay_file(cur, quiet=True) != 0)
                if fails >= 2:
                    violations.append((c['name'], 'C19.data_race' if rc == 66 else 'C19.failure', core.save_violation_replay(pid, cur)))
                else:
                    print('FLAKY-NOT-REPORTED: %s schedule failed %d/3 replays' % (c['name'], fails))
    if not ev['samples']:
        ev['samples'] = [{'note': 'no sample'}]
    core.write_evidence(pid, tier, seed, 'exploration', ev, time.time() - t0, len(violations),
                        ['dynamic race detection covers the executions that happened: ThreadSanitizer flags a conflicting unsynchronised pair when both accesses occur in the run, it cannot exclude a race on a path no schedule executed',
                         'std::allocator only; value types without harness-side shared state (no instrumented Tracked types)',
                         'no claim about concurrent writers'])
    shutil.rmtree(d, ignore_errors=True)
    for name, code, path in violations:
        print('failure in configuration %s: %s' % (name, code))
        print('VIOLATION property=%s replay=%s' % (pid, path))
    if not violations:
        print('C19 %s: no race and no mismatch in %d schedules (%d distinct non-trivial, %d thread executions) over %d configurations in %.1fs' %
              (tier, ev['evaluations'], ev['distinct_nontrivial'], ev['thread_executions'], ev['configurations'], time.time() - t0))
    return 1 if violations else 0


def replay_file(path, quiet=False):
    name = None
    for line in open(path):
        if line.startswith('config '):
            name = line.split()[1]
    racy = name.endswith('+racyalloc')
    c = cg.parse_name(name[:-len('+racyalloc')] if racy else name)
    if racy:
        c['racy'] = True
    b, res = build([c])
    binp, log = res[0]
    if binp is None:
        if not quiet:
            print(log[-2000:])
        return 1
    r = subprocess.run([binp, '--replay', path], stdout=subprocess.PIPE, stderr=subprocess.STDOUT, text=True, env=ENV)
    if not quiet:
        print(r.stdout[-3000:])
    return 0 if r.returncode == 0 else 1


def replay(path, hdr):
    if replay_file(path) == 0:
        print('replay passes: %s' % path)
        return 0
    print('VIOLATION property=C19 replay=%s' % path)
    return 1
