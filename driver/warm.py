#!/usr/bin/env python3
import os, sys
sys.path.insert(0, os.path.dirname(os.path.abspath(__file__)))
import core
seen = {}
seed = int(os.environ.get('VERIF_SEED', '1') or 1)
for pid in sorted(core.BUDGET):
    for c in core.pool_for(pid, 'quick', seed):
        seen[c['name']] = c
b = core.Builder()
res = b.build_all(list(seen.values()))
bad = [n for n, (p, l) in res.items() if p is None]
print('warmed %d configurations (%d do not compile)' % (len(res), len(bad)))
for n in bad[:5]:
    print('  does not compile:', n)
