"""Runners for the properties that are not served by the history interpreter: C15, C17, C19, C20."""
import hashlib
import json
import os
import random
import shutil
import subprocess
import sys
import time
from concurrent.futures import ThreadPoolExecutor

import core

VERIF = core.VERIF
sys.path.insert(0, os.path.join(VERIF, 'gen'))
import configs as cg  # noqa: E402
import units_c20  # noqa: E402


def out_dir(tag):
    d = os.path.join(core.BUILD_ROOT, 'special_%s_%d' % (tag, os.getpid()))
    os.makedirs(d, exist_ok=True)
    return d


# ---------------------------------------------------------------------------------------------------------------
# C20: instantiation matrix, compilers as oracle
# ---------------------------------------------------------------------------------------------------------------
def c20_lists(tier, seed):
    core_pool = cg.core_pool()
    by_cat = {}
    for c in core_pool:
        by_cat.setdefault(cg.category(c), []).append(c)
    rng = random.Random(seed * 104729 + 5)
    rnd = cg.random_pool(seed * 31 + 3, 12 if tier == 'quick' else 60)
    for c in rnd:
        by_cat.setdefault(cg.category(c), []).append(c)
    if tier == 'quick':
        chosen = []
        for cat in sorted(by_cat):
            l = by_cat[cat]
            chosen.append(l[0])
            if len(l) > 1:
                chosen.append(l[1 + rng.randrange(len(l) - 1)])
        # value-type classes that the category key does not distinguish (move-only but trivially movable, trivially
        # destructible but not trivially relocatable) are always part of the quick matrix
        names = {c['name'] for c in chosen}
        for c in core_pool:
            if (c['tags'] & {'handle', 'selfref', 'stamped', 'cloned'}) and c['name'] not in names:
                chosen.append(c)
        return chosen, by_cat
    return [c for cat in sorted(by_cat) for c in by_cat[cat]], by_cat


def c20_compile(src, op, compiler, std):
    cmd = [compiler, '-std=' + std, '-fsyntax-only', '-DVF_OP=%d' % op, '-I' + os.path.join(VERIF, 'harness'),
           '-I' + os.path.join(core.REPO, 'src'), '-Wno-unused-value', src]
    r = subprocess.run(cmd, stdout=subprocess.PIPE, stderr=subprocess.STDOUT, text=True)
    return r.returncode == 0, r.stdout


def run_c20(tier, seed):
    t0 = time.time()
    pid = 'C20'
    d = out_dir('c20')
    lists, by_cat = c20_lists(tier, seed)
    allocs = ['std', 'stateful'] if tier == 'quick' else ['std', 'pmr', 'stateful', 'propagating', 'final']
    # clang++ 14 -std=c++20 is left out: it cannot compile libstdc++ 12's <ranges> machinery that the library switches
    # to under __cpp_lib_ranges (errors inside bits/iterator_concepts.h for every list) - a toolchain pairing problem,
    # not a property of the library; the repository's own C++20 targets are built with g++
    toolchains = [('clang++', 'c++17')] if tier == 'quick' else [('clang++', 'c++17'), ('g++', 'c++17'), ('g++', 'c++20')]
    if tier == 'quick':
        # every list also once with pmr / propagating, alternating, so all four kinds are touched
        pass
    jobs = []
    for i, c in enumerate(lists):
        kinds = list(allocs)
        if tier == 'quick':
            kinds.append(['pmr', 'propagating', 'final'][i % 3])
        for ak in kinds:
            for tc in toolchains:
                jobs.append((c, ak, tc))

    suite_lists = {c['name'] for c in cg.core_pool() if 'suite' in c['tags']}

    def work(job):
        c, ak, (comp, std) = job
        src_text, table = units_c20.emit(c, ak)
        src = os.path.join(d, 'c20_%s_%s.cpp' % (c['name'], ak))
        if not os.path.exists(src):
            with open(src, 'w') as f:
                f.write(src_text)
        ok, log = c20_compile(src, 0, comp, std)
        failing = []
        if not ok:
            for k, name, req in table:
                if not req:
                    continue
                ok1, log1 = c20_compile(src, k, comp, std)
                if not ok1:
                    failing.append((k, name, log1))
            if not failing:
                failing.append((0, 'whole_unit', log))
        return job, table, failing, src

    with ThreadPoolExecutor(core.JOBS) as ex:
        results = list(ex.map(work, jobs))

    cells = 0
    nontrivial = set()
    violations = []
    samples = []
    not_required = 0
    for (c, ak, (comp, std)), table, failing, src in results:
        for k, name, req in table:
            if not req:
                not_required += 1
                continue
            cells += 1
            if c['name'] not in suite_lists or ak not in ('std', 'pmr'):
                nontrivial.add((c['name'], ak, name))
        if len(samples) < 4 and not failing:
            samples.append({'list': cg.descr(c), 'allocator': units_c20.ALLOCS[ak], 'toolchain': comp + ' -std=' + std,
                            'operations_compiled': [n for _, n, r in table if r][:8] + ['...']})
        for k, name, log in failing[:3]:
            rp = os.path.join(d, 'C20_%s_%s_%s.replay' % (c['name'], ak, name))
            with open(rp, 'w') as f:
                f.write('property C20\nrunner c20\nconfig %s\nalloc %s\nop %d %s\ntoolchain %s %s\ncode C20.ill_formed_operation\n' % (c['name'], ak, k, name, comp, std))
                f.write('# operation "%s" is required for this list/allocator but does not compile\n' % name)
                f.write('\n'.join('# ' + l for l in log.splitlines()[:60]) + '\n')
            violations.append((c['name'] + '/' + ak + '/' + name, 'C20.ill_formed_operation', core.save_violation_replay(pid, rp)))
    cov = {'evaluations': cells, 'distinct_nontrivial': len(nontrivial),
           'rule': 'generated instantiation matrix: operation (%d documented operations incl. every constructor form, copy/move, emplace_back with ranges/iterators/move_iterators, erase, reserve, swap, 6 comparisons x vector/reference/element, iteration, structured bindings of reference/const_reference/element/const element, reference<->element assignments, element constructors/assignments/swap) x parameter list (curated lists of every category + seeded random lists) x allocator kind (std::allocator, pmr::polymorphic_allocator, stateful, propagating, an empty allocator class declared final) x toolchain; a requirement predicate over the value types (copyability, D13) says which cells must compile; oracle: the compiler (-fsyntax-only); failing groups are bisected to single operations. NON-TRIVIAL: a required cell on a list the repository\'s suite does not use or with an allocator kind it never instantiates. DISTINCT: (list, allocator, operation).' % max(len(t) for _, t, _, _ in results),
           'samples': samples or [{'note': 'all units failed'}], 'units': len(jobs), 'lists': len(lists),
           'categories': {k: len(v) for k, v in by_cat.items()}, 'cells_not_required': not_required,
           'toolchains': [' '.join(t) for t in toolchains], 'allocator_kinds': sorted({j[1] for j in jobs}),
           'exhaustive': tier == 'thorough'}
    core.write_evidence(pid, tier, seed, 'exploration', cov, time.time() - t0, len(violations),
                        ['the requirement predicate (which operations a list must support) is derived from the value types: copy operations need copyable types; reference assignment/swap/permuting algorithms are not required for lists with a VaryingSize of a non-trivially assignable type (D13)',
                         'compile-only oracle: run-time behaviour of the operations is decided by the other checks'])
    shutil.rmtree(d, ignore_errors=True)
    seen = set()
    for name, code, path in violations:
        if len(seen) < 12:
            print('ill-formed: %s' % name)
            print('VIOLATION property=%s replay=%s' % (pid, path))
        seen.add(name)
    if not violations:
        print('C20 %s: %d required cells compiled (%d distinct non-trivial) in %d units, %.1fs' % (tier, cells, len(nontrivial), len(jobs), time.time() - t0))
    return 1 if violations else 0


def replay_c20(path, hdr):
    info = {}
    for line in open(path):
        w = line.split()
        if w and w[0] in ('config', 'alloc', 'op', 'toolchain'):
            info[w[0]] = w[1:]
    c = cg.parse_name(info['config'][0])
    d = out_dir('c20r')
    src_text, table = units_c20.emit(c, info['alloc'][0])
    src = os.path.join(d, 'replay.cpp')
    open(src, 'w').write(src_text)
    ok, log = c20_compile(src, int(info['op'][0]), info['toolchain'][0], info['toolchain'][1])
    shutil.rmtree(d, ignore_errors=True)
    if ok:
        print('replay passes: %s' % path)
        return 0
    print(log[-3000:])
    print('VIOLATION property=C20 replay=%s' % path)
    return 1


# ---------------------------------------------------------------------------------------------------------------
def run(pid, tier, seed):
    if pid == 'C20':
        return run_c20(tier, seed)
    if pid == 'C15':
        import special_c15
        return special_c15.run(tier, seed)
    if pid == 'C17':
        import special_c17
        return special_c17.run(tier, seed)
    if pid == 'C19':
        import special_c19
        return special_c19.run(tier, seed)
    print('unknown property ' + pid)
    return 2


def replay(runner, path, hdr):
    if runner == 'c20':
        return replay_c20(path, hdr)
    if runner == 'c15':
        import special_c15
        return special_c15.replay(path, hdr)
    if runner == 'c17':
        import special_c17
        return special_c17.replay(path, hdr)
    if runner == 'c19':
        import special_c19
        return special_c19.replay(path, hdr)
    print('unknown runner ' + runner)
    return 2
