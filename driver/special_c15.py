"""C15 runner: generated (source type -> stored type) x form x kind matrix, rapidcheck-generated key vectors."""
import json
import os
import shutil
import subprocess
import sys
import time
from concurrent.futures import ThreadPoolExecutor

import core

VERIF = core.VERIF
sys.path.insert(0, os.path.join(VERIF, 'gen'))
import units_c15  # noqa: E402

RULE = ('generated matrix: source value type -> stored type (same type; int<->float; signed<->unsigned; u8->bool; bool->u8; enum<->underlying; int -> trivially copyable class with converting constructor; trivially copyable class with conversion operator -> int; const char* -> std::string; copy/move-counting class; move-only class; trivially copyable class whose ref-qualified conversion operators tell whether the item was passed as mutable lvalue, const lvalue or rvalue) x source form (vector&, const vector&, vector&&, list&, list&&, deque&, std::array&, C array, lazily generated forward range, pointer, vector iterators, list/deque iterator, counting input iterator, move_iterator of vector iterator / pointer / list iterator) x parameter kind (FixedSize, VaryingSize); rapidcheck generates the source values and lengths 0..9 per cell; oracle: stored[i] == static_cast<T>(source[i]) computed independently per item (bool compared by object representation), lvalue sources unmodified and each item copied exactly once, rvalue ranges / move_iterators moved from exactly once per item, the counting input iterator dereferenced exactly as often as the parameter holds objects, UBSan on. NON-TRIVIAL: source and stored type differ, have equal size and are trivially copyable (the memcpy fast path is selectable) and the length is >= 2. DISTINCT: hash of (cell, key vector).')


def build(cells, tag):
    b = core.Builder(harness='c15')
    eng = b.engine_obj('engine_c15')
    bins = []
    import hashlib

    def one(group):
        text = units_c15.emit(group)
        h = hashlib.sha256(text.encode()).hexdigest()[:12]
        binp = os.path.join(b.dir, 'c15_%s' % h)
        if os.path.exists(binp):
            return binp, ''
        src = os.path.join(b.dir, 'c15_%s.cpp' % h)
        open(src, 'w').write(text)
        obj = src[:-4] + '.o'
        ok, log = b._compile(src, obj)
        if not ok:
            return None, log
        tmp = binp + '.tmp%d' % os.getpid()
        r = core.sh([core.CXX] + core.BASE_FLAGS + core.SAN_FLAGS + [eng, obj, '-lrapidcheck', '-o', tmp])
        if r.returncode != 0:
            return None, r.stdout
        os.replace(tmp, binp)
        return binp, ''

    gs = units_c15.groups(cells)
    with ThreadPoolExecutor(core.JOBS) as ex:
        res = list(ex.map(one, gs))
    return b, gs, res


def run(tier, seed):
    t0 = time.time()
    pid = 'C15'
    cells = units_c15.select(tier, seed)
    cases = 60 if tier == 'quick' else 1500
    b, gs, res = build(cells, tier)
    core.prune_build_cache()
    d = os.path.join(b.dir, 'out_c15_%d' % os.getpid())
    os.makedirs(d, exist_ok=True)
    violations = []
    for g, (binp, log) in zip(gs, res):
        if binp is None:
            p = os.path.join(d, 'compile.log')
            with open(p, 'w') as f:
                f.write('property C15\nrunner c15\ncode C15.does_not_compile\n# a group of source-form cells does not compile\n' + '\n'.join('# ' + l for l in log.splitlines()[:80]) + '\n')
            violations.append(('compile', 'C15.does_not_compile', core.save_violation_replay(pid, p)))

    def work(i):
        binp = res[i][0]
        if binp is None:
            return None
        st = os.path.join(d, 'g%d.json' % i)
        r = subprocess.run([binp, '--cases', str(cases), '--seed', str(core.shard_seed(seed, 'g%d' % i, pid)), '--stats', st],
                           stdout=subprocess.PIPE, stderr=subprocess.STDOUT, text=True, env=core.RUN_ENV)
        s = json.load(open(st)) if os.path.exists(st) else None
        return r.returncode, r.stdout[-3000:], s

    with ThreadPoolExecutor(core.JOBS) as ex:
        outs = list(ex.map(work, range(len(gs))))
    ev = {'evaluations': 0, 'distinct_nontrivial': 0, 'rule': RULE, 'samples': [], 'cells': 0, 'cells_in_full_matrix': len(units_c15.all_cells()),
          'cases_per_cell': cases, 'build_key': b.key}
    for i, o in enumerate(outs):
        if o is None:
            continue
        rc, out, s = o
        if s is None:
            p = os.path.join(d, 'crash_g%d.log' % i)
            with open(p, 'w') as f:
                f.write('property C15\nrunner c15\ncode C15.crash\n# group %d crashed (sanitizer report?)\n' % i + '\n'.join('# ' + l for l in out.splitlines()[-60:]) + '\n')
                f.write('group ' + json.dumps(gs[i]) + '\n')
            violations.append(('group%d' % i, 'C15.crash', core.save_violation_replay(pid, p)))
            continue
        ev['evaluations'] += s['evaluations']
        ev['distinct_nontrivial'] += s['distinct_nontrivial']
        ev['cells'] += s['cells']
        for smp in s['samples']:
            if len(ev['samples']) < 6:
                ev['samples'].append(smp)
        for fl in s['failures']:
            p = os.path.join(d, 'fail_%d_%d.replay' % (i, len(violations)))
            with open(p, 'w') as f:
                f.write('property C15\nrunner c15\ncode C15.wrong_stored_value\n# %s\ncell %s\nkeys %s\ngroup %s\n' % (fl['msg'], fl['cell'], fl['keys'], json.dumps(gs[i])))
            # confirm 3x
            fails = sum(1 for _ in range(3) if replay_file(p, quiet=True) != 0)
            if fails == 3:
                violations.append((fl['cell'], 'C15.wrong_stored_value', core.save_violation_replay(pid, p)))
    if not ev['samples']:
        ev['samples'] = [{'note': 'no sample'}]
    return finish(pid, tier, seed, ev, violations, t0, d)


def finish(pid, tier, seed, ev, violations, t0, d):
    import props
    known = props.known_for(pid)
    kf_lines = []
    listed_cells = set()
    for e in known:
        listed_cells |= set(e.get('cells', []))
    reported = []
    matched = set()
    for name, code, path in violations:
        hit = None
        for e in known:
            if any(name.startswith(c) for c in e.get('cells', [])):
                hit = e
        if hit:
            matched.add(hit['id'])
        else:
            reported.append((name, code, path))
    for e in known:
        if e['id'] in matched:
            kf_lines.append('KNOWN-FINDING: property=%s %s (%s)' % (pid, e['summary'], e['id']))
    for l in kf_lines:
        print(l)
    ev['known_findings_reported'] = len(kf_lines)
    core.write_evidence(pid, tier, seed, 'exploration', ev, time.time() - t0, len(reported),
                        ['source values are small non-negative integers (floats: k or k+0.5), lengths 0..9 (std::array / C array: 4)',
                         'clang++ 14 -O1 with ASan/UBSan; an invalid bool/enum load is reported by UBSan as a crash of the group'])
    shutil.rmtree(d, ignore_errors=True)
    for name, code, path in reported[:20]:
        print('failure in cell %s: %s' % (name, code))
        print('VIOLATION property=%s replay=%s' % (pid, path))
    if not reported:
        print('%s %s: held on %d generated cases (%d distinct non-trivial) over %d cells in %.1fs' % (pid, tier, ev['evaluations'], ev['distinct_nontrivial'], ev['cells'], time.time() - t0))
    return 1 if reported else 0


def replay_file(path, quiet=False):
    group = None
    for line in open(path):
        if line.startswith('group '):
            group = [tuple(x) for x in json.loads(line[6:])]
    if group is None:
        if not quiet:
            print('replay file has no group line; cannot rebuild')
        return 1
    b, gs, res = build(group, 'replay')
    binp, log = res[0]
    if binp is None:
        if not quiet:
            print(log[-2000:])
        return 1
    r = subprocess.run([binp, '--replay', path], stdout=subprocess.PIPE, stderr=subprocess.STDOUT, text=True, env=core.RUN_ENV)
    if not quiet:
        print(r.stdout[-2000:])
    return 0 if r.returncode == 0 else 1


def replay(path, hdr):
    rc = replay_file(path)
    if rc == 0:
        print('replay passes: %s' % path)
        return 0
    print('VIOLATION property=C15 replay=%s' % path)
    return 1
